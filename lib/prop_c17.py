"""C17: the bootstrapped grammar parser is a fixpoint of the generator.

stage 1 = shipped codegen/src/grammar/generated.rs
stage 2 = output of the tree's own CLI on grammar.ebnf            (must equal stage 1 token-wise)
stage 3 = output of a generator built around stage 2              (must equal stage 2 token-wise)
and the front ends of stage 1 and stage 2 must read every text of the corpus to the same Debug result.
"""
import json
import os
import shutil
import subprocess
import tempfile
import time

import prop_c15
import toolprops

FE_MAIN = r'''
use std::io::{BufRead, Write};
use std::str::FromStr;
use peginator_codegen::{CodegenGrammar, CodegenSettings, Grammar, generate_source_header};
fn main() {
    let args: Vec<String> = std::env::args().collect();
    std::panic::set_hook(Box::new(|_| {}));
    if args.len() > 2 && args[1] == "gen" {
        let text = std::fs::read_to_string(&args[2]).unwrap();
        let g = Grammar::from_str(&text).unwrap();
        println!("{}", generate_source_header(&text));
        println!("{}", g.generate_code(&CodegenSettings::default()).unwrap());
        return;
    }
    let stdin = std::io::stdin();
    let out = std::io::stdout();
    let mut w = std::io::BufWriter::new(out.lock());
    for line in stdin.lock().lines() {
        let line = line.unwrap();
        let text: String = serde_json::from_str(&line).unwrap();
        let r = std::panic::catch_unwind(|| format!("{:?}", Grammar::from_str(&text))).unwrap_or_else(|_| "PANIC".into());
        writeln!(w, "{}", serde_json::to_string(&r).unwrap()).unwrap();
    }
}
'''


def tokcmp(V, a, b):
    p = subprocess.run([V.engine_bin("tools"), "c17tok", a, b], env=V.env(), stdout=subprocess.PIPE, text=True)
    return json.loads(p.stdout.strip().splitlines()[-1])


def check(V, prop, tier):
    rep = V.Report(prop, tier, "exploration")
    V.build_engine()
    cli = prop_c15.build_cli(V)
    scratch = tempfile.mkdtemp(prefix="verif-c17-")
    try:
        shipped = os.path.join(V.REPO, "codegen/src/grammar/generated.rs")
        stage2 = os.path.join(scratch, "stage2.rs")
        p = subprocess.run([cli, os.path.join(V.REPO, "grammar.ebnf")], env=V.env(), stdout=subprocess.PIPE, text=True)
        if p.returncode != 0:
            rep.add_violation({"kind": "regeneration-fails", "grammar": "grammar.ebnf", "input": None, "site": "stage2",
                               "expected": "the tree's CLI compiles grammar.ebnf", "actual": p.stdout[-800:]})
            rep.coverage = {"evaluations": 1, "distinct_nontrivial": 0, "rule": toolprops.RULES["C17"], "samples": ["grammar.ebnf"]}
            return rep.finish()
        open(stage2, "w").write(p.stdout)
        evaluations = 0
        # bootstrap.sh pipes the CLI output through rustfmt (which also drops trailing commas inside
        # attributes, a token-level change), so the shipped file is compared with rustfmt(stage 2)
        stage2f = os.path.join(scratch, "stage2_formatted.rs")
        shutil.copy(stage2, stage2f)
        f = subprocess.run(["rustfmt", stage2f], env=V.env(), stdout=subprocess.PIPE, stderr=subprocess.STDOUT, text=True)
        if f.returncode != 0:
            V.die("rustfmt failed on the regenerated parser: " + f.stdout[-500:])
        r12 = tokcmp(V, shipped, stage2f)
        evaluations += 1
        if not r12.get("same"):
            rep.add_violation({"kind": "shipped-parser-is-not-the-regeneration", "grammar": "grammar.ebnf", "input": None, "site": "stage1-vs-stage2",
                               "expected": "shipped generated.rs token-identical to rustfmt(CLI output on grammar.ebnf), checksum line included (= what bootstrap.sh writes)",
                               "actual": json.dumps(r12)[:900]})
        # scratch generator around stage 2
        shutil.copytree(os.path.join(V.REPO, "codegen"), os.path.join(scratch, "codegen"), ignore=shutil.ignore_patterns("target"))
        shutil.copytree(os.path.join(V.REPO, "runtime"), os.path.join(scratch, "runtime"), ignore=shutil.ignore_patterns("target"))
        shutil.copy(stage2, os.path.join(scratch, "codegen/src/grammar/generated.rs"))
        fe = os.path.join(scratch, "fe")
        os.makedirs(os.path.join(fe, "src"))
        open(os.path.join(fe, "Cargo.toml"), "w").write(
            '[package]\nname = "fe"\nversion = "0.0.0"\nedition = "2021"\n\n[dependencies]\npeginator_codegen = { path = "../codegen" }\nserde_json = "1"\n\n[workspace]\n\n[profile.dev]\ndebug = false\n')
        open(os.path.join(fe, "src/main.rs"), "w").write(FE_MAIN)
        os.makedirs(os.path.join(fe, ".cargo"))
        open(os.path.join(fe, ".cargo/config.toml"), "w").write(V.RUSTFLAGS_CFG % os.path.join(scratch, "target"))
        shutil.copy(os.path.join(V.ENGINE, "Cargo.lock"), os.path.join(fe, "Cargo.lock"))
        t0 = time.time()
        b = subprocess.run(["cargo", "build", "--offline", "-q"], cwd=fe, env=V.env(os.path.join(scratch, "target")), stdout=subprocess.PIPE, stderr=subprocess.PIPE, text=True)
        febin = os.path.join(scratch, "target/debug/fe")
        nontrivial = 0
        samples = []
        texts_n = 0
        if b.returncode != 0:
            rep.add_violation({"kind": "generator-around-stage2-does-not-build", "grammar": "grammar.ebnf", "input": None, "site": "stage3",
                               "expected": "a generator built around the regenerated parser compiles", "actual": b.stderr[-1500:]})
        else:
            stage3 = os.path.join(scratch, "stage3.rs")
            p3 = subprocess.run([febin, "gen", os.path.join(V.REPO, "grammar.ebnf")], env=V.env(), stdout=subprocess.PIPE, text=True)
            open(stage3, "w").write(p3.stdout)
            r23 = tokcmp(V, stage2, stage3)
            evaluations += 1
            if not r23.get("same"):
                rep.add_violation({"kind": "not-a-fixpoint", "grammar": "grammar.ebnf", "input": None, "site": "stage2-vs-stage3",
                                   "expected": "stage 3 token-identical to stage 2", "actual": json.dumps(r23)[:900]})
            # differential front ends
            t = subprocess.run([V.engine_bin("tools"), "c17texts", tier], env=V.env(), stdout=subprocess.PIPE, text=True)
            texts = t.stdout
            a = subprocess.run([V.engine_bin("tools"), "c17fe"], env=V.env(), input=texts, stdout=subprocess.PIPE, text=True)
            c = subprocess.run([febin], env=V.env(), input=texts, stdout=subprocess.PIPE, text=True)
            la, lc, lt = a.stdout.splitlines(), c.stdout.splitlines(), texts.splitlines()
            if not (len(la) == len(lc) == len(lt)):
                V.die("front-end filters returned %d / %d answers for %d texts" % (len(la), len(lc), len(lt)))
            texts_n = len(lt)
            outcomes = set()
            for i in range(len(lt)):
                evaluations += 1
                ra = json.loads(la[i])
                outcomes.add(hash(ra))
                if ra.startswith("Ok"):
                    nontrivial += 1
                if i in (0, 5, 700, 9000, 40000) or (ra.startswith("Err") and len(samples) < 6 and i % 977 == 0):
                    samples.append({"text": json.loads(lt[i])[:200], "shipped_front_end": ra[:200]})
                if la[i] != lc[i]:
                    rep.add_violation({"kind": "front-ends-disagree", "grammar": json.loads(lt[i]), "input": None, "site": "shipped-vs-regenerated-front-end",
                                       "expected": "shipped: " + ra[:400], "actual": "regenerated: " + json.loads(lc[i])[:400]})
        rep.coverage = {
            "evaluations": evaluations,
            "distinct_nontrivial": nontrivial,
            "rule": toolprops.RULES["C17"] + "; plus the two token-wise fixpoint comparisons",
            "samples": samples or ["grammar.ebnf"],
            "stage1_vs_stage2": r12,
            "stage2_vs_stage3": r23 if b.returncode == 0 else None,
            "texts_fed_to_both_front_ends": texts_n,
            "scratch_build_s": round(time.time() - t0, 1),
        }
        rep.assumptions = [
            "token-wise comparison (proc_macro2 token strings): formatting and the build-time header line are not compared, the grammar checksum line is",
            "the differential corpus is the C12/C15 text corpora (valid and invalid), not all strings",
        ]
        return rep.finish()
    finally:
        shutil.rmtree(scratch, ignore_errors=True)
