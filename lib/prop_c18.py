import toolprops


def check(V, prop, tier):
    return toolprops.generic(V, prop, tier, assumptions=[
        "alphabet: grammar file in {absent, two valid grammars, one with a syntax error, one rejected by the code generator}; prefix in {'', P, P+Q, R}; file mode with explicit and default destination, directory mode with two files (one in a sub-directory), file mode with rustfmt formatting",
        "outside the alphabet: CRC-32 collisions between grammar texts, concurrent runs, a missing rustfmt binary, changes of derives/user-context settings",
        "expected destination = header computed by the library's generate_source_header + prefix + code from Grammar::from_str/generate_code, compared token-wise after the comment header (through the same rustfmt when formatting is on)",
    ])
