"""Properties decided by explorers in engine/tools (no compiled generated parsers needed), and the
two that need their own harness workspaces (C03 types, C20 schedules)."""
import json
import os
import subprocess
import sys
import time

LEVEL = {
    "C03": "exploration", "C11": "exploration", "C12": "exploration", "C15": "exploration", "C16": "exploration",
    "C17": "exploration", "C18": "model_checking", "C20": "model_checking",
}

RULES = {
    "C11": "every (text, char-boundary position) pair over the alphabet up to the length bound, with and without file name (and with colours forced on for the shorter texts); non-trivial = expected line or column is not 1",
    "C12": "evaluations = grammar texts read by the real front end and compared with the rendered reference structure; non-trivial = layout/spelling variants that differ from the canonical text",
    "C15": "evaluations = grammar texts given to the real front end + code generator in isolated workers; non-trivial = texts the front end parses (they reach the code generator)",
    "C16": "evaluations = (grammar, settings, route, process) generations compared byte-wise with the in-process library output; non-trivial = generations of grammars with multi-type fields or several memoized rules",
    "C17": "evaluations = grammar texts fed to both the shipped and the regenerated front end; non-trivial = texts that parse",
    "C03": "evaluations = grammars whose generated code is compiled together with exact-type assertions; non-trivial = grammars with at least one field",
}


def run_tool(V, args, timeout):
    exe = V.engine_bin("tools")
    try:
        p = subprocess.run([exe] + args, cwd=V.ROOT, env=V.env(), stdout=subprocess.PIPE, stderr=subprocess.PIPE, text=True,
                           timeout=timeout, errors="replace")
    except subprocess.TimeoutExpired:
        V.die("tool %s timed out after %ss" % (" ".join(args), timeout))
    lines = V.parse_lines(p.stdout)
    if p.returncode != 0:
        for l in lines:
            if l.get("k") == "machinery":
                V.die("tools %s: %s" % (args[0], l.get("msg")))
        sys.stdout.write(p.stdout[-3000:] + p.stderr[-3000:])
        V.die("tools %s exited with status %s" % (" ".join(args), p.returncode))
    return lines


def generic(V, prop, tier, extra_args=None, assumptions=None):
    rep = V.Report(prop, tier, LEVEL[prop])
    V.build_engine()
    timeout = 900 if tier == "quick" else 4 * 3600
    lines = run_tool(V, [prop.lower(), tier] + (extra_args or []), timeout)
    stats = None
    for l in lines:
        if l.get("k") == "viol":
            v = {k: val for k, val in l.items() if k not in ("k", "prop")}
            v["tier"] = tier
            v["engine"] = "tools"
            rep.add_violation(v)
        elif l.get("k") == "stats":
            stats = l
    if stats is None:
        V.die("tool printed no stats line")
    cov = {k: v for k, v in stats.items() if k not in ("k", "samples", "nontrivial", "violations", "extra")}
    cov["distinct_nontrivial"] = stats.get("nontrivial", 0)
    cov["samples"] = stats.get("samples", [])
    cov["rule"] = RULES.get(prop, "")
    cov["counters"] = stats.get("extra", {})
    cov["violating_evaluations"] = stats.get("violations", 0)
    if LEVEL[prop] == "model_checking":
        cov["traces_validated_against_impl"] = stats.get("traces_validated_against_impl", stats.get("transitions", 0))
    rep.coverage = cov
    rep.assumptions = assumptions or []
    return rep.finish(exhaustive=stats.get("exhaustive", True))


def check(V, prop, tier):
    if prop == "C11":
        return generic(V, prop, tier, assumptions=[
            "texts above the length bound and characters outside {a, é, \\n, space, 😀} are not explored (plus four long-line families)",
            "the oracle is two str one-liners: line = 1 + newlines before the position; column = 1 + characters since the last newline",
        ])
    if prop in ("C12", "C15", "C16", "C17", "C18"):
        import importlib
        mod = importlib.import_module("prop_" + prop.lower())
        return mod.check(V, prop, tier)
    if prop == "C03":
        import prop_c03
        return prop_c03.check(V, prop, tier)
    if prop == "C20":
        import prop_c20
        return prop_c20.check(V, prop, tier)
    V.die("no check for %s" % prop)
