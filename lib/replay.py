"""./verif replay <replay-file>: re-run the single case of a violation report against the current /repo."""
import json
import os
import subprocess
import sys


def main(V, path):
    v = json.load(open(path))
    print("replaying %s" % path)
    print(json.dumps({k: v.get(k) for k in ("kind", "grammar", "input", "expected", "actual", "history", "site")}, indent=1, ensure_ascii=False)[:3000])
    eng = v.get("engine")
    prop = v.get("prop") or os.path.basename(os.path.dirname(os.path.abspath(path)))
    tier = v.get("tier", "quick")
    if eng in ("e1", "sched") and v.get("case_id") is not None:
        # rebuild the harness of that property from the current /repo and run only this case
        V.build_engine()
        wd = V.harness_dir(prop + ("-sched" if eng == "sched" else ""), tier)
        p = V.run([V.engine_bin("pgen"), prop, tier, wd, "0", V.ENGINE] + (["--sched"] if eng == "sched" else []))
        V.write_ws_config(wd, lints=(prop == "C03"))
        V.cargo_build_ws(wd)
        gen = json.load(open(os.path.join(wd, "gen.json")))
        cid = v["case_id"]
        hit = False
        for s in gen["shards"]:
            main_rs = open(os.path.join(wd, s, "src", "main.rs")).read()
            if "mod g%05d;" % cid not in main_rs:
                continue
            if eng == "sched":
                sched = (v.get("extra") or {}).get("schedule", "")
                args = ["--tier", tier, "--replay", str(cid), sched] + list(v.get("input") or [])
            else:
                args = ["--tier", tier, "--only", str(cid), "--max-viol", "100000"]
            pr = subprocess.run([os.path.join(wd, "target", "debug", s)] + args, cwd=wd, env=V.env(), stdout=subprocess.PIPE, stderr=subprocess.DEVNULL, text=True)
            if eng == "sched":
                print(pr.stdout)
                return 0
            for l in V.parse_lines(pr.stdout):
                if l.get("k") == "viol" and l.get("input") == v.get("input"):
                    hit = True
                    print("STILL VIOLATED on the current tree:\n  expected: %s\n  actual:   %s" % (l["expected"], l["actual"]))
            if not hit:
                print("not reproduced on the current tree (the case now agrees with the reference)")
            return 1 if hit else 0
        print("case %s is not in the current corpus" % cid)
        return 2
    # tool-based properties: re-run the quick check and look for the same case
    pr = subprocess.run([os.path.join(V.ROOT, "verif"), "check", prop, "--tier", tier], cwd=V.ROOT, stdout=subprocess.PIPE, text=True)
    print(pr.stdout[-3000:])
    return pr.returncode
