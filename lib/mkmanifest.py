#!/usr/bin/env python3
"""Writes /verif/MANIFEST.json from the table below (run after adding or changing a check)."""
import json
import os

ROOT = os.path.dirname(os.path.dirname(os.path.abspath(__file__)))

E1_NOTE = ("Trusted: the reference interpreter engine/refpeg (the oracle, written from doc/syntax.md and the property statement), "
           "rustc/std, the harness. Bounded: grammars above the node bound, inputs above the length bound, characters outside the alphabet.")

CHECKS = {
    "C01": dict(engine="e1-conform", technique="bounded-exhaustive enumeration of (grammar, input) pairs executed on the real generated parsers, compared with a reference PEG interpreter",
                text="Every expression tree up to the node bound over the construct alphabet (both whitespace modes, a plain nullable rule, @char classes, every escape spelling, every printable ASCII character as a case-insensitive literal against all 7-bit bytes, every tree up to 5 nodes over the same text as sensitive and insensitive literal, choices of 15..34 alternatives, includes of single-token bodies carrying the opposite skip mode, and the left-recursive corpus of C07 thinned) is compiled by the real generator and rustc and run on every string up to the length bound; acceptance and consumed bytes must equal the reference interpreter's. Exhaustive inside the stated bounds, silent outside them.",
                ref="§3 C01"),
    "C02": dict(engine="e1-conform", technique="bounded-exhaustive enumeration of rule shapes x inputs on real generated parsers; structural comparison of the Debug tree with the reference tree",
                text="All field-carrying trees up to the node bound (incl. plain nullable rules), the override family, @string rules of every small body shape (lone literals, case-insensitive literals, ranges) under every combination of @no_skip_ws / @position and both root modes, @char rules (twin-case ranges, nested classes) delivering characters into fields, overrides and closures, keyword-named fields bound by several parts of a sequence, and every head x context x field-bundle x tail combination (17 bundles, incl. empty alternatives that are not the last), on all inputs up to the length bound: the Debug tree of the real result, read structurally, must hold exactly the reference's matches per field, in order, with the right variant.",
                ref="§3 C02"),
    "C03": dict(engine="e2-shapes", technique="bounded-exhaustive enumeration of rule shapes x names x derive sets through the real code generator, with rustc as the checker of generated exact-type assertions",
                text="The C02 shape space (all field trees up to the node bound, override family, contexts x bundles x tails), 11 rule kinds x 11 bundles x 5 wrappers, recursive shapes whose cycle is broken by * or Vec under 4 directive sets, and every raw-able Rust keyword as field name, rule name and @char rule name, rotating over 5 derive sets: each generated module is compiled (crate carries forbid(unsafe_code)) together with assertions computed from the documented mapping - exhaustive destructuring without `..`, a typed let per field (Option/Vec/Box/enum exactly), wildcard-free matches over every generated enum with typed payloads, PegPosition/PegParser/derive bounds. A module rustc rejects is attributed to its grammar.",
                ref="§3 C03", note="Trusted: rustc as judge; engine/refpeg/src/shape.rs as the reading of the documented mapping. Outside the quantifier: names colliding with prelude/peginator items."),
    "C04": dict(engine="e1-conform", technique="bounded-exhaustive enumeration of byte-level-sensitive grammars x multi-byte inputs on real parsers with the cfg(peginator_verif) boundary assertion on",
                text="Trees over multi-byte literals, ASCII/non-ASCII ranges, insensitive literals, char, @char classes and an extern rule, on every string up to the length bound over a 14-character alphabet (atoms incl. a range with descending bounds) chosen for shared continuation bytes, lead bytes equal to Latin-1 code points and Unicode case-folding traps (KELVIN SIGN, İ) and over a second alphabet of multi-byte Unicode white space (NEL, NBSP, U+2003, U+2028, U+3000), U+FEFF and characters with lead byte 0xE0, long multi-byte inputs also run under the built-in tracer, plus a guard family of non-ASCII case-insensitive literals that the compiler may reject: no panic (the hook turns a split sequence into one), every exposed offset on a char boundary, every string a substring, acceptance equal to the reference.",
                ref="§3 C04"),
    "C05": dict(engine="e1-conform", technique="bounded-exhaustive differential exploration: every subset of @memoize markers x every input, real-vs-real, plus every ordered pair of parse calls",
                text="For every base grammar of the family (rules reached repeatedly at one offset through different contexts; all-@no_skip_ws, every mixed skip-mode assignment with whitespace in the inputs, with a pure refusing @check on a rule, two memoized rules related by `@:`, memoized rules that are also pulled in with `>` from includers of either skip mode, long inputs (up to 4097 repetitions; thorough 65537) incl. a grammar whose second alternative re-reads the whole prefix, a memoized rule evaluated inside a @string rule's body and from a field at one offset, a grammar with 70 memoized rules, and a memoized recursive rule reached through call paths of different depth on inputs nested up to 1026 deep) every subset of rules is memoized and compiled; on every input the result must equal the un-memoized variant's (itself compared with the reference), and every ordered pair of inputs parsed back to back must give the second input's fresh result.",
                ref="§3 C05"),
    "C06": dict(engine="e1-conform", technique="bounded-exhaustive enumeration with probe extern rules counting body evaluations per (rule, offset); multiset compared with the reference's cache-miss events",
                text="Every rule body of the memo family (and of a @leftrec-over-@memoize family, of rules referenced only from lookaheads, and of memoized rules that fail on the verdict of a check function, in parsers built with and without a user context type) starts with a probe; for every memo subset and input each memoized rule's probe fires at most once per offset, all-memoized grammars stay under rules x (len+1), and the whole probe multiset equals the reference interpreter's (so missing evaluations are noticed too).",
                ref="§3 C06"),
    "C07": dict(engine="e1-conform", technique="bounded-exhaustive enumeration of left-recursive grammars x inputs against the literal seed-and-grow reference and an interpreter-free closed form; in-process watchdog for termination",
                text="The usual shape with all tail/base sets up to 2+2 in both alternative orders (bases incl. one guarded by a negative lookahead; rules carrying @memoize next to @leftrec in either order), indirect recursion and eight unusual bodies, under roots that ask for the rule once, with $, or twice at one position, plus two nested left-recursive levels on chains of up to 513 operands recursive alternatives that share a prefix containing a nested self-reference and two left-recursive rules met at one position, on every token string up to the length bound: result tree, consumed bytes and acceptance equal the reference; for the usual recursive-first shape the reference itself is checked against the closed form b x* / left fold; a watchdog reports hangs.",
                ref="§3 C07"),
    "C08": dict(engine="e1-conform", technique="bounded-exhaustive enumeration of skipping/non-skipping rule combinations x inputs with whitespace and near-miss characters",
                text="Trees over every token kind (incl. literals that start with a whitespace character) in skipping and @no_skip_ws roots calling skipping and non-skipping leaves (struct, @string, override, plain nullable), includes carrying the opposite flag, built-in, user-defined and non-idempotent user-defined Whitespace, two reachable includers of one rule with opposite skip modes, on every string up to the length bound over token characters, whitespace and near misses: acceptance, consumed bytes, tree and positions equal the reference.",
                ref="§3 C08"),
    "C09": dict(engine="e1-conform", technique="bounded-exhaustive enumeration of @position subsets x inputs; reference spans plus model-free range invariants",
                text="Field trees with every subset of leaf rules marked @position (plus rules that can match the empty string, rules ending in a group with a nullable alternative, and lookahead atoms) (struct, @string @position, enum override of @position rules), each also with root and leaves memoized, skipping and not, on all inputs with multi-byte characters (incl. U+FEFF in front) and spaces: every range equals the reference span; nested ranges lie inside their parent, successive ones are ordered, @string @position strings equal their slice.",
                ref="§3 C09"),
    "C10": dict(engine="e1-conform", technique="bounded-exhaustive enumeration of failing parses; reported offset/detail checked against the reference's failed-attempt log",
                text="On every failing (grammar, input) pair of the tree corpus (with checks and externs), the memo family, the left-recursive family, choices of 15..34 alternatives, user-defined Whitespace with comments that may stay unterminated, and rules ending in a closure of a lone token called from a non-skipping rule: the offset is a char boundary inside the input at which an attempt failed, the detail names an attempt that failed there, without memo/leftrec it lies in [P_strict, P_lenient] (equal in ~97% of cases, so exact), and it is never the sentinel for recursive-first rules.",
                ref="§3 C10"),
    "C11": dict(engine="tools-c11", technique="exhaustive enumeration of (text, boundary position) pairs through the real PrettyParseError::from_parse_error against closed-form line/column",
                text="Every text up to the length bound over {a, é, newline, space, 😀, CR} and over {a, newline, space, NBSP, U+3000, NEL, tab} x every boundary position x file name absent/present (and every kind of error on the shorter texts) (colours off and forced on), plus long-line families and texts built from pieces (LF, VT, FF, CR LF, multi-byte) with line starts at every offset modulo 8, plus the same calls through one reused buffer (enumeration order, and every ordered pair of short texts of equal byte length): no panic, location line, printed source line and caret column equal the closed form.",
                ref="§3 C11"),
    "C13": dict(engine="e1-conform", technique="bounded-exhaustive differential exploration: >Rule vs parenthesised body in every context, real-vs-real and against the reference",
                text="Every one-hole context up to the node bound x 12 included bodies (incl. bodies that are nothing but an optional or a closure) x 6 directive sets, includes inside a user-defined Whitespace rule, forwarding chains of includes on the included rule x skipping/non-skipping includer (plus a second, never-called includer of the same rule with the opposite skip mode, and the same pairs with rule names that contain each other), compiled twice (include / inlined): identical Debug results and error positions on every input, both equal to the reference; compiler acceptance must agree; and the exact-type assertions computed for the inlined grammar must compile against the include variant's generated code (same public types, rustc as judge).",
                ref="§3 C13"),
    "C14": dict(engine="e1-conform", technique="bounded-exhaustive enumeration of grammars x inputs x environment answers of the user functions (deviation-bounded breadth-first search over answer tables)",
                text="Checks on struct/alias/enum/@string/@string @position/@char rules and extern rules (with and without result type, with and without user context) in every context up to the node bound and in retry contexts that ask for the hooked rule again at the same offset (also @memoize and @leftrec hooked rules), stateful functions that count down a budget kept in the user context (closures over rules that match the empty string), inputs with a multi-byte character; for every input the answer tables are explored breadth-first from the default up to the deviation bound; result and every recorded argument must equal the reference under the same table.",
                ref="§3 C14"),
    "C19": dict(engine="e1-conform", technique="bounded-exhaustive enumeration of traced parses with a recording ParseTracer; nesting, outcomes and (without memo) the exact event sequence compared with the reference",
                text="A quarter of the C01 trees plus the memo, left-recursive and hook families a deep-nesting family (up to 200 rule entries open at once), long traces (up to 4097 items, > 40 000 trace lines per parse, with failing alternatives, cache hits and left-recursive growth) and every character width at every distance 40..=56 bytes behind a rule entry, all through parse_with_trace too; for the hook families every check / extern function itself runs a traced parse before it answers: result with the recording tracer and with parse_with_trace equals the plain result, events are properly nested with the reference's outcome per (rule, offset), and for grammars without memo/leftrec the whole event sequence equals the reference's.",
                ref="§3 C19"),
    "C12": dict(engine="tools-c12", technique="bounded-exhaustive enumeration of layout and spelling variants of corpus grammars through the real front end; Debug of the real Grammar compared with the reference structure rendered in the same form",
                text="~1000 (thorough: ~6000) grammars - samples of every E1 corpus, every tree up to the node bound over two atoms with every operator (precedence), redundant parentheses, every ordered selection of up to 3 directives, @char/@extern forms - each in its canonical text, with each of 7 fillers (spaces, newlines, CRLF, comments) in all gaps at once, every single gap deviation and (thorough) every pair; plus every documented spelling of each pool character in literal, inner-literal, case-insensitive literal, range-start, range-end and @char positions: the Debug structure must be the denoted one, escape spellings must generate the same code as the canonical spelling, and the same texts read from a file by Compile::file (layouts deviating at the start and the end of the file, and everywhere at once) must give the code of the canonical text; box markers on any subset of the mentions of a field are judged through exact-type assertions compiled by rustc; neighbouring literals with every combination of case markers and redundant parentheses, and every nesting of optional / closure / positive closure / group up to 4 nodes, are run as parsers.",
                ref="§3 C12", note="Trusted: engine/refpeg/src/astdebug.rs as the reading of the syntax reference. Bounded: deviations of more than two gaps at once; characters outside the pool."),
    "C16": dict(engine="tools-c16", technique="exhaustive enumeration of grammars x settings x integration routes within a corpus, each route in K fresh processes, byte comparison with the library output; peginate! compiled side by side with the library output and run on every input",
                text="126 (thorough: ~1000) grammars incl. one with 60 multi-type/memoized/exported rules x 3 derive sets x 2 prefixes x routes {library again, library process, CLI, Compile::file, Compile::directory} x K processes, plus the Compile builder with the same settings (prefix, derive set, user context type) given in every order of its setter calls, and Compile::file over an existing destination that is empty, cut inside its header, or another compilation's (shorter or much longer) file, or the compilation of the same file before an edit of its last literal, and Compile::directory after a prefix change in a tree whose grammar file is older than its generated file: generated code byte-identical after header/prefix; the macro expansion of 40 grammars gives the same Debug results and root type layout as the library output on every input. The hash-seed dimension is sampled (K processes), everything else is enumerated.",
                ref="§3 C16", note="Stated limit: std's per-process hash seed cannot be owned by the harness; K fresh processes sample it. Trusted: rustc for the macro route."),
    "C17": dict(engine="tools-c17", technique="fixpoint computation stage1/stage2/stage3 compared token-wise, plus differential run of the shipped and the regenerated front end over the enumerated text corpora",
                text="Stage 2 (tree's CLI on grammar.ebnf, through rustfmt as bootstrap.sh does) must be token-identical to the shipped generated.rs including the checksum line; a generator built around stage 2 in a scratch copy must regenerate stage 2 exactly; and both front ends must give the same Debug(Result) on every text of the C12/C15 corpora (75k quick, ~1M thorough; valid and invalid).",
                ref="§3 C17", note="Trusted: proc_macro2 tokenisation for the comparison; rustfmt for the shipped-vs-stage-2 comparison."),
    "C15": dict(engine="tools-c15", technique="bounded-exhaustive enumeration of grammar texts (all token strings up to a length, all single-token mutations of corpus grammars, a restriction catalogue in every context) through the real front end + code generator in crash-isolated workers; CLI and Compile exit paths compared with the library answer",
                text="Every string of up to 4 (thorough: 5) tokens over a 22-token alphabet, every delete/duplicate/replace mutation of ~50 (thorough: ~240) corpus grammars with a 40-token menu, a catalogue that places a violation of each documented restriction in every context under every derive set (non-ASCII case-insensitive literals in every escape spelling), every @check/@extern path with a segment of up to 2 (thorough: 3) characters over a 16-character alphabet (XID and non-XID letters, digits, marks, punctuation) at every site, every sequence of 2-3 rule definitions over two names x five bodies (repeated names, include cycles through either definition), and three valid grammars under every derive set of one or two names from an 18-name alphabet (traits, paths, non-identifiers), @memoize/@leftrec on 8 rule kinds under every derive set (rejected without Clone, accepted with it), and 14 constructs nested 8, 64, 512, 16384 and 131072 deep (compiler on a fixed 8 MiB stack): the library answers with code or an error value (a worker that panics, aborts or stalls is pinned to the text through a progress file), catalogue entries are rejected, must-accept entries are accepted, and the exit status of peginator-cli, Compile::run and run_exit_on_error agrees with the library answer.",
                ref="§3 C15", note="Trusted: the worker isolation (progress file, 20 s stall watchdog), the catalogue as a faithful reading of the documented restrictions. Not judged: whether accepted code compiles (C03)."),
    "C18": dict(engine="tools-c18", level="model_checking", technique="explicit-state breadth-first search over build-script histories to the fixpoint of the reachable state set; every run transition executed by the real Compile on a real directory",
                text="States (grammar content, prefix, destination bytes) per mode - file mode with explicit/default destination, file mode with rustfmt, directory mode with two files, directory mode with rustfmt, directory mode with an explicit destination set (must be ignored) - are explored breadth-first to a fixpoint over menus of 9 grammars (valid, unparsable, rejected by codegen, whitespace-only difference, multi-byte output, not UTF-8 on disk) and 5 prefixes; after every run the destination must be header+prefix+code of the current grammar, an up-to-date destination must keep bytes and mtime, a failing run must leave destinations untouched (other files of a directory run: untouched or complete); with rustfmt on, the text after the header must be exactly the rustfmt of a fresh compilation.",
                ref="§3 C18", note="Trusted: the library route (generate_source_header, Grammar::from_str, generate_code) as the definition of the expected file; token-wise comparison after the comment header. Outside the alphabet: CRC collisions, concurrent runs, missing rustfmt, derive/user-context changes."),
    "C20": dict(engine="e6-sched", level="model_checking", technique="exhaustive DFS over thread interleavings (shuttle; full for short parses, preemption-bounded for long ones) of real generated parsers with every tracer callback and extern function a scheduling point; plus exhaustive enumeration of sequential call histories up to length 3",
                text="For 26 (thorough: 46) memoized, left-recursive, whitespace-skipping and deep-nesting grammars (one input nests 300 deep): every ordered sequence of parse calls up to length 3 (own strings, one reused buffer, alternating fresh threads; oracles = reference model, the complete result of the input parsed alone on a fresh thread, and the same in a fresh process; families incl. rarely-hit memo tables after hundreds of hit-free lookups, a memo table with 7000 entries in a failing parse, a checked @char rule fed characters equal mod 256, and a case-insensitive literal on inputs that are prefixes of one another) and, under shuttle's exhaustive DFS scheduler, every interleaving of two (thorough: also three) short concurrent parses chosen to collide on the same rules and offsets, and for long parses (up to 40, thorough 64, scheduling points per thread) every interleaving with at most 2 (thorough 3) preemptions under a preemption-bounded DFS scheduler, including groups in which one thread parses through the public parse_with_trace while the others parse plainly - every complete schedule's results must equal the reference model's per input.",
                ref="§3 C20", note="Granularity: rule entry/exit/cache notices (the tracer seam); finer interleavings are not explored. Shuttle threads share OS thread-locals, so hidden thread-local state is seen as shared state. Trusted: shuttle's DFS scheduler, the reference model."),
}

NOT_YET = {}


def main():
    props = [json.loads(l) for l in open(os.path.join(ROOT, "properties.jsonl"))]
    checks = []
    na = []
    for p in props:
        pid = p["id"]
        if pid in CHECKS:
            c = CHECKS[pid]
            level = c.get("level", "exploration")
            checks.append({
                "property_id": pid,
                "quick_cmd": "./verif check %s --tier quick" % pid,
                "thorough_cmd": "./verif check %s --tier thorough" % pid,
                "evidence_file": "evidence/%s.json" % pid,
                "replay_cmd_template": "./verif replay {path}",
                "engine": c["engine"],
                "level_claimed": {"category": level, "text": c["text"], "design_ref": "DESIGN.md " + c["ref"]},
                "level_note": c.get("note", E1_NOTE),
                "technique": c["technique"],
            })
        else:
            na.append({"property_id": pid, "reason": NOT_YET.get(pid, "check not yet built in this commit (work in progress; see DESIGN.md)")})
    m = {
        "version": 1,
        "setup_cmd": "./verif setup",
        "hooks": {
            "guard": "peginator_verif",
            "enable": "RUSTFLAGS=--cfg peginator_verif, set through .cargo/config.toml of the engine and of every generated harness workspace",
            "baseline_off_cmd": "cd /repo && cargo test --workspace --no-fail-fast --offline",
            "source_commits": ["cc902cd"],
            "add_only": True,
        },
        "engines": [
            {"name": "e1-conform", "path": "engine/ (refpeg, pgen, hrt) + verif", "serves_properties": [k for k, v in CHECKS.items() if v["engine"] == "e1-conform"],
             "kind_free_text": "bounded-exhaustive explorer: enumerates grammars x inputs, runs real codegen -> rustc -> generated parser, compares with the reference model refpeg"},
            {"name": "e2-shapes", "path": "engine/ (refpeg/src/shape.rs, pgen) + lib/prop_c03.py", "serves_properties": ["C03"],
             "kind_free_text": "bounded-exhaustive shape enumeration with rustc as checker of generated exact-type assertions"},
            {"name": "e6-sched", "path": "engine/sched + lib/prop_c20.py", "serves_properties": ["C20"],
             "kind_free_text": "stateless model checking of real generated parsers: shuttle exhaustive DFS over interleavings at tracer callbacks, plus sequential history enumeration"},
            {"name": "tools", "path": "engine/tools", "serves_properties": [k for k, v in CHECKS.items() if v["engine"].startswith("tools")],
             "kind_free_text": "explorers that drive the runtime / front end / code generator / Compile directly"},
        ],
        "checks": checks,
        "not_applicable": na,
        "notes": "See DESIGN.md. known_findings.json (committed) lists the genuine defects found: F1-F15 repaired by fix: commits in /repo (fixed entries suppress nothing), F16 (C15: grammar texts nested 16384+ deep overflow the stack) recorded as a known finding matched by the exact nesting cases.",
    }
    if not na:
        del m["not_applicable"]
    json.dump(m, open(os.path.join(ROOT, "MANIFEST.json"), "w"), indent=1)
    print("MANIFEST.json: %d checks, %d not claimed" % (len(checks), len(na)))


if __name__ == "__main__":
    main()
