"""C16: determinism / route independence. Routes are explored by `tools c16`; the peginate! macro route
needs rustc: a crate is generated in which every corpus grammar is compiled twice (macro expansion and
library output, side by side) and both parsers are run on every input."""
import json
import os
import shutil
import subprocess

import prop_c15
import toolprops


def macro_route(V, tier):
    """returns (evaluations, nontrivial, violations[list], grammars)"""
    wd = os.path.join(V.WORK, "C16-macro")
    shutil.rmtree(os.path.join(wd, "src"), ignore_errors=True)
    os.makedirs(os.path.join(wd, "src"), exist_ok=True)
    lines = toolprops.run_tool(V, ["c16macro", tier], 300)
    cases = lines
    with open(os.path.join(wd, "Cargo.toml"), "w") as fh:
        fh.write('[package]\nname = "c16macro"\nversion = "0.0.0"\nedition = "2021"\n\n[dependencies]\n'
                 'peginator = { path = "/repo/runtime" }\npeginator_macro = { path = "/repo/macro" }\nserde_json = "1"\n\n'
                 '[workspace]\n\n[profile.dev]\ndebug = false\nincremental = false\n')
    V.write_ws_config(wd)
    V.ensure_repo_fresh([os.path.join(wd, "target")])
    main = ["#![allow(warnings)]", "use peginator::PegParser;"]
    for i, c in enumerate(cases):
        gfile = os.path.join(wd, "g%d.ebnf" % i)
        open(gfile, "w").write(c["text"])
        p = subprocess.run([V.engine_bin("tools"), "c16gen", "lib", gfile], env=V.env(), stdout=subprocess.PIPE, text=True)
        if p.returncode != 0:
            V.die("library route rejected a corpus grammar of the macro comparison: " + c["text"])
        raw = 'r####"%s"####' % c["text"]
        runfn = ('pub fn run(i: &str) -> String { use peginator::PegParser; match %s::parse(i) { Ok(v) => format!("Ok {:?}", v), '
                 'Err(e) => format!("Err {} {:?}", e.position, e.specifics) } }\n'
                 'pub fn shape() -> (usize, usize) { (std::mem::size_of::<%s>(), std::mem::align_of::<%s>()) }') % (c["root"], c["root"], c["root"])
        main.append("mod m%d { use peginator_macro::peginate; peginate!(%s); %s }" % (i, raw, runfn))
        main.append("mod l%d { %s\n %s }" % (i, p.stdout, runfn))
    main.append("fn main() { let mut evals = 0u64; let mut ok_parses = 0u64; let mut bad: Vec<serde_json::Value> = Vec::new();")
    for i, c in enumerate(cases):
        main.append("  { let inputs: Vec<String> = serde_json::from_str(%s).unwrap();" % json.dumps(json.dumps(c["inputs"])))
        main.append("    if m%d::shape() != l%d::shape() { bad.push(serde_json::json!({\"case\": %d, \"input\": null, \"macro\": format!(\"{:?}\", m%d::shape()), \"library\": format!(\"{:?}\", l%d::shape())})); }" % (i, i, i, i, i))
        main.append("    for inp in &inputs { evals += 1; let a = m%d::run(inp); let b = l%d::run(inp); if a.starts_with(\"Ok\") { ok_parses += 1; } if a != b { bad.push(serde_json::json!({\"case\": %d, \"input\": inp, \"macro\": a, \"library\": b})); } } }" % (i, i, i))
    main.append('  println!("{}", serde_json::json!({"evals": evals, "ok_parses": ok_parses, "bad": bad})); }')
    open(os.path.join(wd, "src", "main.rs"), "w").write("\n".join(main))
    p = subprocess.run(["cargo", "run", "--offline", "-q"], cwd=wd, env=V.env(os.path.join(wd, "target")), stdout=subprocess.PIPE, stderr=subprocess.PIPE, text=True)
    if p.returncode != 0:
        # a macro expansion that does not compile where the library output does is a violation of the property
        return 0, 0, [{"kind": "macro-route-does-not-compile", "grammar": None, "input": None, "site": "peginate!",
                       "expected": "the macro expansion compiles like the library output", "actual": p.stderr[-1500:]}], len(cases)
    res = json.loads(p.stdout.strip().splitlines()[-1])
    viols = []
    for b in res["bad"][:10]:
        viols.append({"kind": "macro-route-differs", "grammar": cases[b["case"]]["text"], "input": b["input"], "site": "peginate!",
                      "expected": "library: %s" % b["library"], "actual": "macro: %s" % b["macro"]})
    return res["evals"], res["ok_parses"], viols, len(cases)


def check(V, prop, tier):
    cli = prop_c15.build_cli(V)
    rep = V.Report(prop, tier, "exploration")
    V.build_engine()
    lines = toolprops.run_tool(V, ["c16", tier, cli], 3600)
    stats = [l for l in lines if l.get("k") == "stats"][0]
    for l in lines:
        if l.get("k") == "viol":
            v = {k: val for k, val in l.items() if k not in ("k", "prop")}
            rep.add_violation(v)
    me, mn, mv, mg = macro_route(V, tier)
    for v in mv:
        rep.add_violation(v)
    rep.coverage = {
        "evaluations": stats["evaluations"] + me,
        "distinct_nontrivial": stats["nontrivial"] + mn,
        "rule": toolprops.RULES["C16"] + "; macro route: evaluations = inputs run through the macro-expanded and the library-generated parser of the same grammar, non-trivial = successful parses",
        "samples": stats["samples"],
        "grammars": stats["grammars"],
        "routes": stats["extra"],
        "processes_per_route": stats["processes_per_route"],
        "macro_route_grammars": mg,
        "macro_route_parses": me,
        "distinct_outcomes": stats["distinct_outcomes"],
        "exhaustive": False,
        "explanation": stats["explanation"],
    }
    rep.assumptions = [
        "std's per-process hash seed cannot be owned: K fresh processes per route sample it (K=3 quick, 12 thorough); one grammar has 60 multi-type/memoized/exported rules so that order nondeterminism would show in any two processes",
        "the CLI cannot express an empty derive set or a prefix; those settings are covered by the Compile and library routes only",
        "macro route: same Debug results, same size/alignment of the root type on every input (types are compared through their Debug rendering, not token-wise)",
    ]
    return rep.finish(exhaustive=False)
