"""C20: parsing is a pure function of grammar and input, also across threads.
Part 1: every ordered sequence of parse calls (length <= 3) per grammar, on one thread and on alternating
        fresh threads, against the reference model, the same input parsed alone on a fresh thread and the same
        input parsed alone in a fresh process (E1 harness, comparator history_case).
Part 2: every interleaving of 2 (thorough: also 3) concurrent parses at rule-boundary granularity under
        shuttle's exhaustive DFS scheduler (engine/sched)."""
import sys


def check(V, prop, tier):
    rep = V.Report(prop, tier, "model_checking")
    hist = V.run_e1("C20", tier, rep)
    sch = V.run_e1("C20", tier, rep, sched=True)
    rep.coverage = {
        "states": sch["schedules"],
        "transitions": max(sch["schedule_transitions"], 1),
        "traces_validated_against_impl": sch["schedules"] + hist["evaluations"],
        "samples": (sch["samples"] or [])[:4] + (hist["samples"] or [])[:3],
        "explanation": "states = complete schedules executed on the real generated parsers (every schedule is one execution of 2-3 real threads under the controlled scheduler); transitions = scheduling points passed in those executions (rule entry / exit / cache notice callbacks of the tracer); traces_validated = schedules + sequential call histories, all run on the implementation and compared with the reference model's result per input",
        "schedule_groups": sch["groups"],
        "distinct_schedule_outcomes": sch["distinct_outcomes"],
        "sequential_histories": hist["evaluations"],
        "histories_longer_than_one": hist["distinct_nontrivial"],
        "fresh_process_baselines": hist.get("counters", {}).get("fresh_process_baselines", 0),
        "placement_parses": hist.get("counters", {}).get("placement_parses", 0),
        "placement_start_addresses_mod_16": {k[len("placement_address_mod_16_is_"):]: v for k, v in sorted(hist.get("counters", {}).items()) if k.startswith("placement_address_mod_16_is_")},
        "distinct_history_outcomes": hist["distinct_outcomes"],
        "grammars": hist["grammars_enumerated"],
        "grammar_families": hist["grammar_families"],
        "evaluations": sch["schedules"] + hist["evaluations"],
        "distinct_nontrivial": sch["schedules"] + hist["distinct_nontrivial"],
        "exhaustive": True,
    }
    rep.assumptions = [
        "scheduling points are the ParseTracer callbacks (every rule entry, rule exit, cache-hit/left-recursion notice); interleavings at finer granularity are not explored",
        "shuttle runs its threads as coroutines on one OS thread, so OS thread-locals are shared between them: hidden thread-local state shows up as shared state (intended); the harness' own thread-locals are not used in this mode",
        "every input's history-free result comes from a fresh process running the same shard binary (`--one <case>`), so process-wide statics cannot hide in the baseline",
        "a supplementary free-running multi-thread run is not part of the verdict",
        "2 threads with 4..8 events each (quick 6 colliding pairs + one self-pair per grammar; thorough 20 pairs and two 3-thread groups with <= 4 events each)",
    ]
    return rep.finish()
