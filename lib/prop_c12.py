"""C12: structure half (tools c12: layout/spelling variants through the real front end against the
rendered reference structure) + behaviour half (E1 harness on the escape families: every spelling and
adjacent escapes run as parsers against the reference interpreter)."""
import toolprops


def check(V, prop, tier):
    rep = V.Report(prop, tier, "exploration")
    V.build_engine()
    lines = toolprops.run_tool(V, ["c12", tier], 3600)
    stats = [l for l in lines if l.get("k") == "stats"][0]
    for l in lines:
        if l.get("k") == "viol":
            rep.add_violation({k: val for k, val in l.items() if k not in ("k", "prop")})
    beh = V.run_e1("C12", tier, rep)
    rep.coverage = {
        "evaluations": stats["evaluations"] + beh["evaluations"],
        "distinct_nontrivial": stats["nontrivial"] + beh["distinct_nontrivial"],
        "rule": toolprops.RULES["C12"] + "; behaviour half: (escape grammar, input) pairs run on the real generated parser, non-trivial = accepted with at least one byte consumed",
        "samples": stats["samples"][:4] + beh["samples"][:3],
        "structure_half": {k: stats[k] for k in ("grammars", "layout_variants", "escape_spellings", "fillers", "pair_deviations", "distinct_outcomes")},
        "behaviour_half": {k: beh[k] for k in ("grammars_enumerated", "grammar_families", "input_spaces", "parses_accepted", "parses_rejected", "distinct_outcomes")},
        "exhaustive": True,
    }
    rep.assumptions = [
        "layout deviations: all single gap deviations over 7 fillers, each filler in all gaps at once, and (thorough, grammars up to 24 tokens) all pairs over 3x3 fillers; deeper combinations are not explored",
        "inside @check(...)/@extern(...) paths comments are not offered as fillers: a name part is documented to take every character except - ) :",
        "expected structure = the reference AST rendered in the Debug form of peginator_codegen::Grammar (engine/refpeg/src/astdebug.rs)",
        "escape spellings are judged by structure, by the generated code being identical to the canonically spelled grammar, and behaviourally on the escape families (every spelling of 11 pool characters; all ordered pairs over CR, LF, TAB, b, backslash, quote inside one literal in escaped/raw/mixed spelling)",
    ]
    return rep.finish()
