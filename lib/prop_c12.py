import toolprops


def check(V, prop, tier):
    return toolprops.generic(V, prop, tier, assumptions=[
        "layout deviations: all single gap deviations over 7 fillers, each filler in all gaps at once, and (thorough, grammars up to 24 tokens) all pairs over 3x3 fillers; deeper combinations are not explored",
        "inside @check(...)/@extern(...) paths comments are not offered as fillers: a name part is documented to take every character except - ) :",
        "expected structure = the reference AST rendered in the Debug form of peginator_codegen::Grammar (engine/refpeg/src/astdebug.rs)",
        "escape spellings are judged by structure and by the generated code being identical to the canonically spelled grammar (behaviour of the canonical spellings is C01's escape family)",
    ])
