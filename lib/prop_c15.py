import os
import toolprops


def build_cli(V):
    td = os.path.join(V.WORK, "cli-target")
    V.ensure_repo_fresh([td])
    p = V.run(["cargo", "build", "-q", "-p", "peginator-cli", "--offline", "--target-dir", td], cwd=V.REPO, check=False)
    exe = os.path.join(td, "debug", "peginator-cli")
    if p.returncode != 0 or not os.path.exists(exe):
        print(p.stdout[-3000:])
        V.die("building peginator-cli failed")
    return exe


def check(V, prop, tier):
    cli = build_cli(V)
    return toolprops.generic(V, prop, tier, extra_args=[cli], assumptions=[
        "token strings above the length bound, mutations of more than one token and grammars outside the corpora are not explored",
        "only the answer (code / error / crash) is judged here; whether accepted code compiles is C03's business",
        "derive sets are {default, [], [Debug], [Clone], [Debug,Clone,PartialEq,Eq]}; derive names that are not identifiers are outside the alphabet",
    ])
