#!/bin/bash
# usage: ingest_seed.sh <worktree> <name> <demo command run inside worktree>
# Confirms the demo both ways in the sub-agent's worktree, copies the seeded/ directory to /verif/seeded/<name>,
# removes the worktree with its build output.
set -u
wt=$1; name=$2; shift 2; demo="$*"
cd "$wt" || exit 2
git diff --quiet -- . ':!seeded' && { echo "worktree has no change applied; applying patch"; git apply seeded/patch.diff || exit 2; }
echo "== demo WITH the change"; (eval "$demo") > /tmp/ingest_with.log 2>&1; with=$?; tail -5 /tmp/ingest_with.log
git apply -R seeded/patch.diff || { echo "cannot revert patch"; exit 2; }
echo "== demo WITHOUT the change"; (eval "$demo") > /tmp/ingest_without.log 2>&1; without=$?; tail -3 /tmp/ingest_without.log
echo "exit with=$with without=$without"
if [ $with -ne 0 ] && [ $without -eq 0 ]; then
  rm -rf /verif/seeded/$name; mkdir -p /verif/seeded/$name
  rm -rf seeded/demo/target seeded/target
  cp -r seeded/. /verif/seeded/$name/
  echo "copied to /verif/seeded/$name"
  cd /; git -C /repo worktree remove --force "$wt" && echo "worktree removed"
else
  echo "DEMO NOT CONFIRMED - worktree kept"
  exit 1
fi
