"""./verif selftest [--no-suite] [name-substring ...]

For every patch in mutants/ (and seeded/*/patch.diff): (1) in a scratch worktree outside /repo and /verif,
apply it, force regeneration of the test grammars and run the repository's suite - it must stay green,
otherwise the change is not a valid seeded defect; (2) apply it to /repo, run the quick check of the
property it targets, expect exit status 1 with a VIOLATION line; (3) undo it straight afterwards.
Writes mutants/RESULTS.md."""
import glob
import os
import re
import shutil
import subprocess
import sys
import time


def sh(cmd, cwd=None, timeout=3600):
    p = subprocess.run(cmd, cwd=cwd, shell=isinstance(cmd, str), stdout=subprocess.PIPE, stderr=subprocess.STDOUT, text=True, timeout=timeout)
    return p.returncode, p.stdout


def suite_passes(V, patch, scratch):
    sh(["git", "-C", scratch, "checkout", "-q", "--", "."])
    sh(["git", "-C", scratch, "clean", "-fdq", "-e", "target"])
    rc, out = sh(["git", "-C", scratch, "apply", patch])
    if rc != 0:
        return None, "patch does not apply: " + out[-300:]
    sh("find test/src -name grammar.rs -delete; touch test/build.rs", cwd=scratch)
    rc, out = sh("cargo test --workspace --no-fail-fast --offline 2>&1", cwd=scratch)
    passed = sum(int(x) for x in re.findall(r"test result: ok\. (\d+) passed", out))
    failed = re.findall(r"test result: FAILED|error(?:\[E\d+\])?:|could not compile", out)
    ok = rc == 0 and not failed
    return ok, "%d tests passed, rc=%d%s" % (passed, rc, "" if ok else " :: " + out[-600:].replace("\n", " | "))


def main(V, args):
    no_suite = "--no-suite" in args
    suite_only = "--suite-only" in args
    filters = [a for a in args if not a.startswith("--")]
    patches = sorted(glob.glob(os.path.join(V.ROOT, "mutants", "*.patch"))) + sorted(glob.glob(os.path.join(V.ROOT, "seeded", "*", "patch.diff")))
    if filters:
        patches = [p for p in patches if any(f in p for f in filters)]
    rc, out = sh(["git", "-C", V.REPO, "status", "--porcelain", "--untracked-files=no"])
    if out.strip() and not suite_only:
        V.die("/repo has uncommitted changes; refusing to apply mutants")
    scratch = "/tmp/verif-selftest-wt"
    if not no_suite:
        sh(["git", "-C", V.REPO, "worktree", "remove", "--force", scratch])
        rc, out = sh(["git", "-C", V.REPO, "worktree", "add", "-q", "--detach", scratch, "HEAD"])
        if rc != 0:
            V.die("cannot create scratch worktree: " + out)
    rows = []
    try:
        for patch in patches:
            name = os.path.basename(patch)[:-6] if patch.endswith(".patch") else "seeded/" + os.path.basename(os.path.dirname(patch))
            m = re.search(r"(C\d\d)", name)
            prop = m.group(1)
            meta = os.path.join(os.path.dirname(patch), "meta.json")
            if os.path.exists(meta) and not patch.endswith(".patch"):
                import json
                prop = json.load(open(meta)).get("property", prop)
            t0 = time.time()
            suite = "skipped"
            if not no_suite:
                ok, msg = suite_passes(V, patch, scratch)
                suite = ("passes: " if ok else "FAILS: ") + msg
            if suite_only:
                rows.append((name, prop, suite, "(check not run: --suite-only)", time.time() - t0))
                print("%-55s %s %s" % (name, prop, suite[:100]), flush=True)
                continue
            rc, out = sh(["git", "-C", V.REPO, "apply", patch])
            if rc != 0:
                rows.append((name, prop, suite, "patch does not apply to /repo", 0))
                continue
            try:
                rc, out = sh([os.path.join(V.ROOT, "verif"), "check", prop, "--tier", "quick"], cwd=V.ROOT, timeout=3600)
            finally:
                sh(["git", "-C", V.REPO, "checkout", "--", "."])
            viol = [l for l in out.splitlines() if l.startswith("VIOLATION")]
            kinds = sorted(set(re.findall(r"kind=(\S+)", out)))
            verdict = "DETECTED" if (rc == 1 and viol) else ("MISSED" if rc == 0 else "MACHINERY(rc=%d)" % rc)
            rows.append((name, prop, suite, "%s (%d VIOLATION lines; kinds: %s)" % (verdict, len(viol), ", ".join(kinds[:4])), time.time() - t0))
            print("%-55s %s %-9s %s  [%.0fs]" % (name, prop, verdict, suite[:60], time.time() - t0), flush=True)
            if verdict.startswith("MACHINERY"):
                print(out[-1500:])
    finally:
        if not suite_only:
            sh(["git", "-C", V.REPO, "checkout", "--", "."])
        if not no_suite:
            sh(["git", "-C", V.REPO, "worktree", "remove", "--force", scratch])
    with open(os.path.join(V.ROOT, "mutants", "SUITE.md" if suite_only else "RESULTS.md"), "a" if filters else "w") as fh:
        fh.write("\n## selftest run %s (repo %s)\n\n| change | property | repository suite with the change | quick check |\n|---|---|---|---|\n" % (
            time.strftime("%Y-%m-%d %H:%M"), sh(["git", "-C", V.REPO, "log", "--format=%h", "-1"])[1].strip()))
        for name, prop, suite, verdict, dt in rows:
            fh.write("| %s | %s | %s | %s |\n" % (name, prop, suite.replace("|", "/")[:160], verdict))
    missed = [r for r in rows if not r[3].startswith("DETECTED") and not suite_only]
    return 1 if missed else 0
