"""C03: generated types follow the documented mapping and always compile. rustc is the judge: next to
every generated module pgen writes exact-type assertions computed by engine/refpeg/src/shape.rs from the
documentation; a module that does not compile is attributed to its grammar and reported."""


def check(V, prop, tier):
    rep = V.Report(prop, tier, "exploration")
    cov = V.run_e1("C03", tier, rep)
    for v in rep.violations:
        if v.get("kind") == "generated-code-does-not-compile":
            v["kind"] = "generated-code-or-exact-type-assertion-rejected-by-rustc"
            v["expected"] = "rustc accepts the generated module together with the exact-type assertions (forbid(unsafe_code) on the crate)"
    cov["rule"] = "evaluations = grammars whose generated code was compiled by rustc together with exact-type assertions (exhaustive destructuring, typed lets, wildcard-free matches, trait-bound instantiations); non-trivial = grammars with at least one field"
    rep.coverage = cov
    rep.assumptions = [
        "the documented mapping as coded in engine/refpeg/src/shape.rs (from doc/syntax.md: Fields, Override, Boxing, Directives); a box marker on one occurrence of a (field, type) pair boxes that type in the field",
        "rule names colliding with prelude/peginator items and names that cannot be identifiers are outside the quantifier (the latter are C15's: rejected without panic)",
        "#![forbid(unsafe_code)] on every harness crate: generated code containing unsafe would not compile",
    ]
    return rep.finish()
