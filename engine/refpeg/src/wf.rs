//! Well-formedness analysis: the quantifier of the parsing properties ("for all well-formed grammars")
//! and the documented restrictions of the grammar compiler.

use crate::ast::*;
use std::collections::{BTreeMap, BTreeSet};

pub const BUILTIN_RULES: [&str; 2] = ["char", "Whitespace"];

#[derive(Clone, Debug, PartialEq, Eq)]
pub enum Problem {
    Undefined(String),
    NullableClosure(String),
    LeftRecursion(String),
    /// a documented restriction: the compiler must reject the grammar
    Restricted(String),
}

pub struct Analysis<'g> {
    pub g: &'g Grammar,
    /// rule can succeed without consuming input
    pub nullable: BTreeMap<String, bool>,
}

impl<'g> Analysis<'g> {
    pub fn new(g: &'g Grammar) -> Self {
        let mut a = Analysis { g, nullable: BTreeMap::new() };
        for r in &g.rules {
            a.nullable.insert(r.name.clone(), false);
        }
        // least fixpoint
        loop {
            let mut changed = false;
            for r in &g.rules {
                let n = a.rule_nullable(r);
                if n && !a.nullable[&r.name] {
                    a.nullable.insert(r.name.clone(), true);
                    changed = true;
                }
            }
            if !changed {
                break;
            }
        }
        a
    }

    fn rule_nullable(&self, r: &Rule) -> bool {
        match &r.def {
            RuleDef::Normal(b) => self.expr_nullable(b),
            RuleDef::Char { .. } => false,
            // an extern function may return 0 bytes
            RuleDef::Extern { .. } => true,
        }
    }

    pub fn ref_nullable(&self, rule: &str) -> bool {
        if rule == "char" {
            return false;
        }
        if rule == "Whitespace" && !self.g.has("Whitespace") {
            return true;
        }
        *self.nullable.get(rule).unwrap_or(&false)
    }

    pub fn expr_nullable(&self, e: &Expr) -> bool {
        match e {
            Expr::Lit { chars, .. } => chars.is_empty(),
            Expr::Range { .. } => false,
            Expr::Eoi => true,
            Expr::Ref { rule, .. } => self.ref_nullable(rule),
            Expr::Include(r) => self.ref_nullable(r),
            Expr::Seq(v) => v.iter().all(|p| self.expr_nullable(p)),
            Expr::Choice(v) => v.iter().any(|p| self.expr_nullable(p)),
            Expr::Opt(_) | Expr::Star(_) | Expr::Not(_) | Expr::And(_) => true,
            Expr::Plus(b) | Expr::Group(b) => self.expr_nullable(b),
        }
    }

    /// rules that may be invoked at the position where `e` starts (before anything is consumed).
    /// `skipping`: the enclosing rule skips whitespace, so the `Whitespace` rule is called first.
    fn left_calls(&self, e: &Expr, skipping: bool, out: &mut BTreeSet<String>) {
        match e {
            Expr::Lit { .. } | Expr::Range { .. } | Expr::Eoi => {
                if skipping {
                    out.insert("Whitespace".into());
                }
            }
            Expr::Ref { rule, .. } => {
                if skipping {
                    out.insert("Whitespace".into());
                }
                out.insert(rule.clone());
            }
            Expr::Include(r) => {
                // the body of r, evaluated in place
                out.insert(format!(">{r}"));
                if let Some(Rule { def: RuleDef::Normal(b), .. }) = self.g.rule(r) {
                    // guard against include cycles
                    if !out.contains(&format!(">>{r}")) {
                        out.insert(format!(">>{r}"));
                        self.left_calls(b, skipping, out);
                    }
                }
            }
            Expr::Seq(v) => {
                for p in v {
                    self.left_calls(p, skipping, out);
                    // whitespace skipping consumes, but only sometimes: stay conservative and treat a
                    // part as transparent only if it is nullable
                    if !self.expr_nullable(p) {
                        break;
                    }
                }
            }
            Expr::Choice(v) => {
                for p in v {
                    self.left_calls(p, skipping, out);
                }
            }
            Expr::Opt(b) | Expr::Star(b) | Expr::Plus(b) | Expr::Not(b) | Expr::And(b) | Expr::Group(b) => {
                self.left_calls(b, skipping, out)
            }
        }
    }

    pub fn left_call_graph(&self) -> BTreeMap<String, BTreeSet<String>> {
        let mut gr = BTreeMap::new();
        for r in &self.g.rules {
            let mut out = BTreeSet::new();
            match &r.def {
                RuleDef::Normal(b) => self.left_calls(b, !r.flags().no_skip_ws, &mut out),
                RuleDef::Char { parts, .. } => {
                    for p in parts {
                        if let CharPart::Ident(n) = p {
                            out.insert(n.clone());
                        }
                    }
                }
                RuleDef::Extern { .. } => {}
            }
            let out: BTreeSet<String> = out.into_iter().filter(|n| !n.starts_with('>')).collect();
            gr.insert(r.name.clone(), out);
        }
        gr
    }

    /// rules that lie on a left-recursive cycle
    pub fn left_recursive_rules(&self) -> BTreeSet<String> {
        let gr = self.left_call_graph();
        let mut res = BTreeSet::new();
        for start in gr.keys() {
            // reachable from start in >=1 steps
            let mut seen = BTreeSet::new();
            let mut stack: Vec<String> = gr[start].iter().cloned().collect();
            while let Some(n) = stack.pop() {
                if !seen.insert(n.clone()) {
                    continue;
                }
                if let Some(next) = gr.get(&n) {
                    stack.extend(next.iter().cloned());
                }
            }
            if seen.contains(start) {
                res.insert(start.clone());
            }
        }
        res
    }

    pub fn problems(&self) -> Vec<Problem> {
        let mut out = Vec::new();
        let g = self.g;
        // definedness
        for r in &g.rules {
            match &r.def {
                RuleDef::Normal(b) => b.visit(&mut |e| match e {
                    Expr::Ref { rule, .. } => {
                        if !g.has(rule) && !BUILTIN_RULES.contains(&rule.as_str()) {
                            out.push(Problem::Undefined(rule.clone()));
                        }
                    }
                    Expr::Include(rule) => match g.rule(rule) {
                        Some(Rule { def: RuleDef::Normal(_), .. }) => {}
                        Some(_) => out.push(Problem::Restricted(format!("include of non-normal rule {rule}"))),
                        None => out.push(Problem::Restricted(format!("include of missing rule {rule}"))),
                    },
                    _ => {}
                }),
                RuleDef::Char { parts, .. } => {
                    for p in parts {
                        if let CharPart::Ident(n) = p {
                            match g.rule(n) {
                                Some(Rule { def: RuleDef::Char { .. }, .. }) => {}
                                // the built-in `char` may be an alternative of a @char rule
                                None if n == "char" => {}
                                _ => out.push(Problem::Undefined(format!("char rule {n}"))),
                            }
                        }
                    }
                }
                RuleDef::Extern { .. } => {}
            }
        }
        // include cycles
        for r in &g.rules {
            if self.include_reaches(&r.name, &r.name, &mut BTreeSet::new()) {
                out.push(Problem::Restricted(format!("include cycle through {}", r.name)));
            }
        }
        if out.iter().any(|p| matches!(p, Problem::Restricted(s) if s.starts_with("include cycle"))) {
            return out;
        }
        // closures with nullable bodies
        for r in &g.rules {
            if let RuleDef::Normal(b) = &r.def {
                b.visit(&mut |e| {
                    if let Expr::Star(body) | Expr::Plus(body) = e {
                        if self.expr_nullable(body) {
                            out.push(Problem::NullableClosure(r.name.clone()));
                        }
                    }
                });
            }
        }
        // left recursion outside @leftrec
        // (a cycle is fine when it passes through a @leftrec rule: "direct, or indirect through non-memoized rules")
        let gr = self.left_call_graph();
        let is_leftrec = |n: &str| g.rule(n).map(|r| r.flags().leftrec).unwrap_or(false);
        for n in self.left_recursive_rules() {
            if is_leftrec(&n) {
                continue;
            }
            // is n on a cycle that avoids every @leftrec rule?
            let mut seen = BTreeSet::new();
            let mut stack: Vec<String> = gr[&n].iter().filter(|m| !is_leftrec(m)).cloned().collect();
            while let Some(m) = stack.pop() {
                if !seen.insert(m.clone()) {
                    continue;
                }
                if let Some(next) = gr.get(&m) {
                    stack.extend(next.iter().filter(|k| !is_leftrec(k)).cloned());
                }
            }
            // a rule on the cycle that is memoized would be evaluated inside the growth loop: outside the quantifier
            let memo = g.rule(&n).map(|r| r.flags().memoize).unwrap_or(false);
            if seen.contains(&n) || memo {
                out.push(Problem::LeftRecursion(n));
            }
        }
        out.extend(self.restrictions());
        out
    }

    fn include_reaches(&self, from: &str, target: &str, seen: &mut BTreeSet<String>) -> bool {
        let Some(Rule { def: RuleDef::Normal(b), .. }) = self.g.rule(from) else { return false };
        let mut incs = Vec::new();
        b.visit(&mut |e| {
            if let Expr::Include(r) = e {
                incs.push(r.clone());
            }
        });
        for i in incs {
            if i == target {
                return true;
            }
            if seen.insert(i.clone()) && self.include_reaches(&i, target, seen) {
                return true;
            }
        }
        false
    }

    /// does the expression (looking through includes) declare any named or override field?
    pub fn has_fields(&self, e: &Expr) -> bool {
        !self.g.field_types(e).is_empty()
    }

    /// documented restrictions (grammars the compiler must reject)
    pub fn restrictions(&self) -> Vec<Problem> {
        let g = self.g;
        let mut out = Vec::new();
        for r in &g.rules {
            let f = r.flags();
            let RuleDef::Normal(b) = &r.def else { continue };
            // fields inside lookaheads
            b.visit(&mut |e| {
                if let Expr::Not(x) | Expr::And(x) = e {
                    if self.has_fields(x) {
                        out.push(Problem::Restricted(format!("field inside lookahead in {}", r.name)));
                    }
                }
            });
            // also through includes
            let ft = g.field_types(b);
            if ft.contains_key("_override") && ft.len() > 1 && !f.string {
                out.push(Problem::Restricted(format!("@: mixed with named fields in {}", r.name)));
            }
            if f.export && f.string {
                out.push(Problem::Restricted(format!("@string @export on {}", r.name)));
            }
            if r.name == "Whitespace" && !f.no_skip_ws {
                out.push(Problem::Restricted("skipping Whitespace rule".into()));
            }
            if !f.string && ft.len() == 1 && ft.contains_key("_override") {
                let multi = ft["_override"].len() > 1;
                if !multi && (f.export || f.position) {
                    out.push(Problem::Restricted(format!("@export/@position on plain override {}", r.name)));
                }
                if multi && crate::shape::arity_of(g, b, "_override") != crate::shape::Arity::One {
                    out.push(Problem::Restricted(format!("multi-type @: not exactly once in {}", r.name)));
                }
            }
            // case-insensitive non-ascii literal
            b.visit(&mut |e| {
                if let Expr::Lit { chars, insensitive: true, .. } = e {
                    if chars.iter().any(|c| !c.c.is_ascii()) {
                        out.push(Problem::Restricted(format!("non-ascii insensitive literal in {}", r.name)));
                    }
                }
            });
        }
        out
    }

    pub fn well_formed(&self) -> bool {
        self.problems().is_empty()
    }
}

pub fn well_formed(g: &Grammar) -> bool {
    Analysis::new(g).well_formed()
}
