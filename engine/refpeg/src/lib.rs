//! refpeg: the reference model ("oracle") for peginator grammars, and the enumerators of the
//! bounded spaces that the explorers cover exhaustively.

pub mod ast;
pub mod astdebug;
pub mod corpus;
pub mod dbg;
pub mod enumerate;
pub mod interp;
pub mod print;
pub mod shape;
pub mod wf;
