//! Reader for Rust `{:?}` output of derive(Debug) values, and the canonical form in which result
//! trees of real parsers and of the reference interpreter are compared.
//!
//! Canonical form (a string):
//!   node      Name{f:[v,v],g:[]}            fields sorted by name, every field a list
//!             Name{...}@a..b                 when the node carries `position` (and positions are kept)
//!   string    "..."  (Rust escape_debug)     char 'c'
//!   wrapper   T(v)                           enum variant / tuple struct
//! Arity wrappers are normalised away: None -> [], Some(x) -> [x], [..] -> items, x -> [x]; nested
//! wrappers are flattened. Rule names `Some`/`None` are therefore reserved in corpora.

#[derive(Clone, Debug, PartialEq)]
pub enum DVal {
    Struct(String, Vec<(String, DVal)>),
    Tuple(String, Vec<DVal>),
    Unit(String),
    List(Vec<DVal>),
    Str(String),
    Char(char),
    Range(usize, usize),
    Num(String),
    UnitTuple,
}

pub struct Reader<'a> {
    s: &'a [u8],
    src: &'a str,
    p: usize,
}

pub fn parse_debug(s: &str) -> Result<DVal, String> {
    let mut r = Reader { s: s.as_bytes(), src: s, p: 0 };
    let v = r.value()?;
    r.ws();
    if r.p != r.s.len() {
        return Err(format!("trailing text at {} in {:?}", r.p, s));
    }
    Ok(v)
}

impl<'a> Reader<'a> {
    fn ws(&mut self) {
        while self.p < self.s.len() && (self.s[self.p] == b' ' || self.s[self.p] == b'\n') {
            self.p += 1;
        }
    }
    fn peek(&self) -> Option<u8> {
        self.s.get(self.p).copied()
    }
    fn eat(&mut self, c: u8) -> bool {
        self.ws();
        if self.peek() == Some(c) {
            self.p += 1;
            true
        } else {
            false
        }
    }
    fn expect(&mut self, c: u8) -> Result<(), String> {
        if self.eat(c) {
            Ok(())
        } else {
            Err(format!("expected {:?} at {} in {:?}", c as char, self.p, self.src))
        }
    }
    fn ident(&mut self) -> String {
        let st = self.p;
        while self.p < self.s.len() && (self.s[self.p].is_ascii_alphanumeric() || self.s[self.p] == b'_' || self.s[self.p] == b'#') {
            self.p += 1;
        }
        self.src[st..self.p].to_string()
    }
    fn escaped_char(&mut self) -> Result<char, String> {
        // after a backslash
        let c = self.peek().ok_or("eof in escape")?;
        self.p += 1;
        Ok(match c {
            b'n' => '\n',
            b'r' => '\r',
            b't' => '\t',
            b'0' => '\0',
            b'\\' => '\\',
            b'\'' => '\'',
            b'"' => '"',
            b'u' => {
                self.expect(b'{')?;
                let st = self.p;
                while self.peek().map(|c| c != b'}').unwrap_or(false) {
                    self.p += 1;
                }
                let v = u32::from_str_radix(&self.src[st..self.p], 16).map_err(|e| e.to_string())?;
                self.p += 1;
                char::from_u32(v).ok_or("bad code point")?
            }
            other => return Err(format!("unknown escape \\{}", other as char)),
        })
    }
    fn next_char(&mut self) -> Result<char, String> {
        let c = self.src[self.p..].chars().next().ok_or("eof")?;
        self.p += c.len_utf8();
        Ok(c)
    }
    pub fn value(&mut self) -> Result<DVal, String> {
        self.ws();
        match self.peek() {
            None => Err("eof".into()),
            Some(b'"') => {
                self.p += 1;
                let mut out = String::new();
                loop {
                    let c = self.next_char()?;
                    match c {
                        '"' => break,
                        '\\' => out.push(self.escaped_char()?),
                        c => out.push(c),
                    }
                }
                Ok(DVal::Str(out))
            }
            Some(b'\'') => {
                self.p += 1;
                let c = self.next_char()?;
                let c = if c == '\\' { self.escaped_char()? } else { c };
                if self.peek() != Some(b'\'') {
                    return Err(format!("bad char literal at {}", self.p));
                }
                self.p += 1;
                Ok(DVal::Char(c))
            }
            Some(b'[') => {
                self.p += 1;
                let mut items = Vec::new();
                loop {
                    if self.eat(b']') {
                        break;
                    }
                    items.push(self.value()?);
                    self.eat(b',');
                }
                Ok(DVal::List(items))
            }
            Some(b'(') => {
                self.p += 1;
                self.expect(b')')?;
                Ok(DVal::UnitTuple)
            }
            Some(c) if c.is_ascii_digit() => {
                let st = self.p;
                while self.peek().map(|c| c.is_ascii_digit()).unwrap_or(false) {
                    self.p += 1;
                }
                let a = self.src[st..self.p].to_string();
                if self.src[self.p..].starts_with("..") {
                    self.p += 2;
                    let st2 = self.p;
                    while self.peek().map(|c| c.is_ascii_digit()).unwrap_or(false) {
                        self.p += 1;
                    }
                    let b = &self.src[st2..self.p];
                    Ok(DVal::Range(a.parse().map_err(|_| "range")?, b.parse().map_err(|_| "range")?))
                } else {
                    Ok(DVal::Num(a))
                }
            }
            Some(_) => {
                let name = self.ident();
                if name.is_empty() {
                    return Err(format!("unexpected {:?} at {} in {:?}", self.peek().map(|c| c as char), self.p, self.src));
                }
                self.ws();
                match self.peek() {
                    Some(b'{') => {
                        self.p += 1;
                        let mut fields = Vec::new();
                        loop {
                            if self.eat(b'}') {
                                break;
                            }
                            self.ws();
                            let f = self.ident();
                            self.expect(b':')?;
                            let v = self.value()?;
                            fields.push((f, v));
                            self.eat(b',');
                        }
                        Ok(DVal::Struct(name, fields))
                    }
                    Some(b'(') => {
                        self.p += 1;
                        let mut items = Vec::new();
                        loop {
                            if self.eat(b')') {
                                break;
                            }
                            items.push(self.value()?);
                            self.eat(b',');
                        }
                        Ok(DVal::Tuple(name, items))
                    }
                    _ => Ok(DVal::Unit(name)),
                }
            }
        }
    }
}

fn push_items(v: &DVal, keep_pos: bool, out: &mut Vec<String>) {
    match v {
        DVal::Unit(n) if n == "None" => {}
        DVal::Tuple(n, items) if n == "Some" && items.len() == 1 => push_items(&items[0], keep_pos, out),
        DVal::List(items) => {
            for i in items {
                push_items(i, keep_pos, out);
            }
        }
        other => out.push(canon_dval(other, keep_pos)),
    }
}

/// canonical form of a value read from real Debug output
pub fn canon_dval(v: &DVal, keep_pos: bool) -> String {
    match v {
        DVal::Struct(name, fields) => {
            let mut fs: Vec<(String, String)> = Vec::new();
            let mut pos = None;
            for (f, val) in fields {
                if f == "position" {
                    if let DVal::Range(a, b) = val {
                        pos = Some((*a, *b));
                        continue;
                    }
                }
                let mut items = Vec::new();
                push_items(val, keep_pos, &mut items);
                fs.push((f.clone(), format!("[{}]", items.join(","))));
            }
            fs.sort();
            let body: Vec<String> = fs.into_iter().map(|(f, v)| format!("{f}:{v}")).collect();
            let mut s = format!("{}{{{}}}", name, body.join(","));
            if keep_pos {
                if let Some((a, b)) = pos {
                    s.push_str(&format!("@{a}..{b}"));
                }
            }
            s
        }
        DVal::Unit(n) => format!("{n}{{}}"),
        DVal::Tuple(n, items) => {
            let its: Vec<String> = items.iter().map(|i| canon_dval(i, keep_pos)).collect();
            format!("{}({})", n, its.join(","))
        }
        DVal::List(_) => {
            let mut items = Vec::new();
            push_items(v, keep_pos, &mut items);
            format!("[{}]", items.join(","))
        }
        DVal::Str(s) => format!("{:?}", s),
        DVal::Char(c) => format!("{:?}", c),
        DVal::Range(a, b) => format!("{a}..{b}"),
        DVal::Num(n) => n.clone(),
        DVal::UnitTuple => "()".into(),
    }
}

/// canonical form of the *top-level* value: an override alias may be an Option/Vec itself
pub fn canon_top(v: &DVal, keep_pos: bool) -> String {
    match v {
        DVal::Unit(n) if n == "None" => "[]".into(),
        DVal::Tuple(n, _) if n == "Some" => {
            let mut items = Vec::new();
            push_items(v, keep_pos, &mut items);
            format!("[{}]", items.join(","))
        }
        other => canon_dval(other, keep_pos),
    }
}

pub fn canon_debug_str(s: &str, keep_pos: bool) -> Result<String, String> {
    Ok(canon_top(&parse_debug(s)?, keep_pos))
}

/// all (a,b) position ranges in the value, in pre-order, with nesting depth
pub fn positions(v: &DVal, depth: usize, out: &mut Vec<(usize, usize, usize)>) {
    match v {
        DVal::Struct(_, fields) => {
            for (f, val) in fields {
                if f == "position" {
                    if let DVal::Range(a, b) = val {
                        out.push((depth, *a, *b));
                    }
                }
            }
            for (f, val) in fields {
                if f != "position" {
                    positions(val, depth + 1, out);
                }
            }
        }
        DVal::Tuple(_, items) | DVal::List(items) => {
            for i in items {
                positions(i, depth, out);
            }
        }
        _ => {}
    }
}

/// every string leaf of the value
pub fn strings(v: &DVal, out: &mut Vec<String>) {
    match v {
        DVal::Struct(_, fields) => {
            for (_, val) in fields {
                strings(val, out);
            }
        }
        DVal::Tuple(_, items) | DVal::List(items) => {
            for i in items {
                strings(i, out);
            }
        }
        DVal::Str(s) => out.push(s.clone()),
        _ => {}
    }
}

/// (string, position) pairs of `@string @position` nodes: structs with exactly the fields `string` and `position`
pub fn string_position_nodes(v: &DVal, out: &mut Vec<(String, usize, usize)>) {
    match v {
        DVal::Struct(_, fields) => {
            if fields.len() == 2 {
                let s = fields.iter().find(|(f, _)| f == "string");
                let p = fields.iter().find(|(f, _)| f == "position");
                if let (Some((_, DVal::Str(s))), Some((_, DVal::Range(a, b)))) = (s, p) {
                    out.push((s.clone(), *a, *b));
                }
            }
            for (_, val) in fields {
                string_position_nodes(val, out);
            }
        }
        DVal::Tuple(_, items) | DVal::List(items) => {
            for i in items {
                string_position_nodes(i, out);
            }
        }
        _ => {}
    }
}

#[cfg(test)]
mod tests {
    use super::*;
    #[test]
    fn reads_derive_debug() {
        #[derive(Debug)]
        #[allow(dead_code)]
        struct A {
            f: Option<Box<B>>,
            g: Vec<E>,
            position: std::ops::Range<usize>,
            r#fn: char,
        }
        #[derive(Debug)]
        struct B;
        #[derive(Debug)]
        #[allow(dead_code)]
        enum E {
            X(String),
            Y(B),
        }
        let a = A { f: Some(Box::new(B)), g: vec![E::X("q\"\n€\u{7f}".into()), E::Y(B)], position: 3..17, r#fn: '\'' };
        let s = format!("{:?}", a);
        let c = canon_debug_str(&s, true).unwrap();
        assert_eq!(c, "A{f:[B{}],fn:['\\''],g:[X(\"q\\\"\\n€\\u{7f}\"),Y(B{})]}@3..17");
        let s2 = format!("{:#?}", a);
        assert_eq!(canon_debug_str(&s2, true).unwrap(), c);
    }
}
