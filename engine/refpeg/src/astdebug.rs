//! Renders the reference AST in the `{:?}` form of the real `peginator_codegen::Grammar`
//! (what `peginator-cli --ast-only` shows): the structure a grammar text *denotes*.
//! The mapping mirrors the printer: a `Group` node appears exactly where the text has parentheses.

use crate::ast::*;

fn str_list(v: &[String]) -> String {
    format!("[{}]", v.iter().map(|s| format!("{:?}", s)).collect::<Vec<_>>().join(", "))
}

fn string_item(c: &LitChar, quote: Option<char>) -> String {
    let v = c.c as u32;
    // the printer spells a raw quote/backslash as a simple escape, and an escaped *other* quote raw
    let sp = match (&c.sp, quote) {
        (Spelling::Raw, Some(q)) if c.c == q || c.c == '\\' => Spelling::Simple,
        (Spelling::Raw, None) if c.c == '\'' || c.c == '\\' => Spelling::Simple,
        (Spelling::Simple, Some(q)) if (c.c == '\'' || c.c == '"') && c.c != q => Spelling::Raw,
        (Spelling::Simple, None) if c.c == '"' => Spelling::Raw,
        (s, _) => s.clone(),
    };
    let hexd = |n: usize, upper: bool| -> Vec<char> {
        let s = format!("{:0width$x}", v, width = n);
        let s = if upper { s.to_uppercase() } else { s };
        s.chars().collect()
    };
    match sp {
        Spelling::Raw => format!("char({:?})", c.c),
        Spelling::Simple => {
            let n = match c.c {
                '\n' => "SimpleEscapeNewline",
                '\r' => "SimpleEscapeCarriageReturn",
                '\t' => "SimpleEscapeTab",
                '\\' => "SimpleEscapeBackslash",
                '\'' => "SimpleEscapeQuote",
                '"' => "SimpleEscapeDQuote",
                _ => panic!("no simple escape"),
            };
            format!("SimpleEscape({n}({n}))")
        }
        Spelling::Hex { upper } => {
            let d = hexd(2, upper);
            format!("HexaEscape(HexaEscape {{ c1: {:?}, c2: {:?} }})", d[0], d[1])
        }
        Spelling::U4 { upper } => utf8(&hexd(4, upper)),
        Spelling::U8 { upper } => {
            // \U00XXXXXX: the two leading zeros are literal text, six digits follow
            let d = hexd(8, upper);
            utf8(&d[2..])
        }
        Spelling::Brace { digits, upper } => utf8(&hexd(digits as usize, upper)),
    }
}

fn utf8(d: &[char]) -> String {
    let opt = |i: usize| -> String {
        match d.get(i) {
            Some(c) => format!("Some({:?})", c),
            None => "None".into(),
        }
    };
    format!(
        "Utf8Escape(Utf8Escape {{ c1: {:?}, c2: {}, c3: {}, c4: {}, c5: {}, c6: {} }})",
        d[0],
        opt(1),
        opt(2),
        opt(3),
        opt(4),
        opt(5)
    )
}

/// expression printed in Top context
fn choice_of(e: &Expr) -> String {
    let arms: Vec<String> = match e {
        Expr::Choice(v) if v.len() >= 2 => v.iter().map(arm_of).collect(),
        other => vec![seq_of(other)],
    };
    format!("Choice {{ choices: [{}] }}", arms.join(", "))
}

/// one of several alternatives: an empty sequence is written as nothing and read as a sequence without parts
fn arm_of(e: &Expr) -> String {
    match e {
        Expr::Seq(v) if v.is_empty() => "Sequence { parts: [] }".to_string(),
        other => seq_of(other),
    }
}

/// expression printed as an arm
fn seq_of(e: &Expr) -> String {
    let parts: Vec<String> = match e {
        Expr::Seq(v) if v.len() >= 2 => v.iter().map(delim_of).collect(),
        other => vec![delim_of(other)],
    };
    format!("Sequence {{ parts: [{}] }}", parts.join(", "))
}

/// what is inside the parentheses the printer puts around a Seq/Choice
fn paren_body(e: &Expr) -> String {
    match e {
        Expr::Seq(v) => format!("Choice {{ choices: [Sequence {{ parts: [{}] }}] }}", v.iter().map(delim_of).collect::<Vec<_>>().join(", ")),
        Expr::Choice(v) if v.len() >= 2 => format!("Choice {{ choices: [{}] }}", v.iter().map(arm_of).collect::<Vec<_>>().join(", ")),
        Expr::Choice(v) => format!("Choice {{ choices: [{}] }}", v.iter().map(seq_of).collect::<Vec<_>>().join(", ")),
        _ => unreachable!(),
    }
}

/// expression printed as a sequence part / lookahead operand
fn delim_of(e: &Expr) -> String {
    match e {
        Expr::Seq(_) | Expr::Choice(_) => format!("Group(Group {{ body: {} }})", paren_body(e)),
        Expr::Group(b) => format!("Group(Group {{ body: {} }})", choice_of(b)),
        Expr::Opt(b) => format!("Optional(Optional {{ body: {} }})", choice_of(b)),
        Expr::Star(b) => format!("Closure(Closure {{ body: {}, at_least_one: None }})", choice_of(b)),
        Expr::Plus(b) => format!("Closure(Closure {{ body: {}, at_least_one: Some(AtLeastOneMarker) }})", choice_of(b)),
        Expr::Not(b) => format!("NegativeLookahead(NegativeLookahead {{ expr: {} }})", delim_of(b)),
        Expr::And(b) => format!("PositiveLookahead(PositiveLookahead {{ expr: {} }})", delim_of(b)),
        Expr::Lit { chars, insensitive, dq } => {
            let q = if *dq { '"' } else { '\'' };
            format!(
                "StringLiteral(StringLiteral {{ insensitive: {}, body: [{}] }})",
                if *insensitive { "Some(CaseInsensitiveMarker)" } else { "None" },
                chars.iter().map(|c| string_item(c, Some(q))).collect::<Vec<_>>().join(", ")
            )
        }
        Expr::Range { from, to } => format!("CharacterRange({})", range(from, to)),
        Expr::Eoi => "EndOfInput(EndOfInput)".into(),
        Expr::Include(r) => format!("IncludeRule(IncludeRule {{ rule: {:?} }})", r),
        Expr::Ref { name, boxed, rule } => {
            let n = match name {
                FieldName::None => "None".to_string(),
                FieldName::Named(n) => format!("Some(Identifier({:?}))", n),
                FieldName::Override => "Some(OverrideMarker(OverrideMarker))".to_string(),
            };
            // the box marker can only be written after `name:`
            let b = if *boxed && *name != FieldName::None { "Some(BoxMarker)" } else { "None" };
            format!("Field(Field {{ name: {}, boxed: {}, typ: {:?} }})", n, b, rule)
        }
    }
}

fn range(from: &LitChar, to: &LitChar) -> String {
    format!("CharacterRange {{ from: {}, to: {} }}", string_item(from, None), string_item(to, None))
}

fn directive(d: &Directive) -> String {
    match d {
        Directive::Export => "ExportDirective(ExportDirective)".into(),
        Directive::NoSkipWs => "NoSkipWsDirective(NoSkipWsDirective)".into(),
        Directive::Position => "PositionDirective(PositionDirective)".into(),
        Directive::String => "StringDirective(StringDirective)".into(),
        Directive::Memoize => "MemoizeDirective(MemoizeDirective)".into(),
        Directive::Leftrec => "LeftrecDirective(LeftrecDirective)".into(),
        Directive::Check(p) => format!("CheckDirective(CheckDirective {{ function: {} }})", str_list(p)),
    }
}

pub fn rule_debug(r: &Rule) -> String {
    match &r.def {
        RuleDef::Normal(b) => format!(
            "Rule(Rule {{ directives: [{}], name: {:?}, definition: {} }})",
            r.directives.iter().map(directive).collect::<Vec<_>>().join(", "),
            r.name,
            choice_of(b)
        ),
        RuleDef::Char { parts, .. } => {
            let checks: Vec<String> = r
                .directives
                .iter()
                .filter_map(|d| if let Directive::Check(p) = d { Some(format!("CheckDirective {{ function: {} }}", str_list(p))) } else { None })
                .collect();
            let ps: Vec<String> = parts
                .iter()
                .map(|p| match p {
                    CharPart::Char(c) => format!("CharRangePart({})", string_item(c, None)),
                    CharPart::Range(a, b) => format!("CharacterRange({})", range(a, b)),
                    CharPart::Ident(n) => format!("Identifier({:?})", n),
                })
                .collect();
            format!("CharRule(CharRule {{ directives: [{}], name: {:?}, choices: [{}] }})", checks.join(", "), r.name, ps.join(", "))
        }
        RuleDef::Extern { func, ret } => format!(
            "ExternRule(ExternRule {{ directive: ExternDirective {{ function: {}, return_type: {} }}, name: {:?} }})",
            str_list(func),
            match ret {
                Some(r) => format!("Some({})", str_list(r)),
                None => "None".into(),
            },
            r.name
        ),
    }
}

pub fn grammar_debug(g: &Grammar) -> String {
    format!("Grammar {{ rules: [{}] }}", g.rules.iter().map(rule_debug).collect::<Vec<_>>().join(", "))
}
