//! Printer: reference AST -> peginator grammar text (as a token list, so layout can be varied).

use crate::ast::*;

/// One token of grammar text. `glue_next`: no gap is *allowed* between this token and the next one
/// (they are parts of one lexical unit of the documented syntax).
#[derive(Clone, Debug, PartialEq, Eq)]
pub struct Tok {
    pub s: String,
}

fn t(s: &str) -> Tok {
    Tok { s: s.to_string() }
}

pub fn lit_text(chars: &[LitChar], insensitive: bool, dq: bool) -> String {
    let q = if dq { '"' } else { '\'' };
    let mut s = String::new();
    if insensitive {
        s.push('i');
    }
    s.push(q);
    for c in chars {
        // a raw quote of the other kind is fine; a raw quote of this kind must be escaped
        if c.sp == Spelling::Raw && (c.c == q || c.c == '\\') {
            s.push_str(&LitChar { c: c.c, sp: Spelling::Simple }.text());
        } else if c.sp == Spelling::Simple && (c.c == '\'' || c.c == '"') && c.c != q {
            // canonical: do not escape the other quote
            s.push(c.c);
        } else {
            s.push_str(&c.text());
        }
    }
    s.push(q);
    s
}

pub fn range_part_text(c: &LitChar) -> String {
    let mut s = String::from("'");
    if c.sp == Spelling::Raw && (c.c == '\'' || c.c == '\\') {
        s.push_str(&LitChar { c: c.c, sp: Spelling::Simple }.text());
    } else if c.sp == Spelling::Simple && c.c == '"' {
        s.push('"');
    } else {
        s.push_str(&c.text());
    }
    s.push('\'');
    s
}

#[derive(Clone, Copy, PartialEq, Eq, PartialOrd)]
enum Ctx {
    /// body of a rule, bracket or group: anything goes
    Top,
    /// arm of a choice: a choice needs parentheses
    Arm,
    /// part of a sequence: sequences and choices need parentheses
    Part,
    /// operand of `!` / `&`: must be a single delimited expression
    Operand,
}

pub fn expr_tokens(e: &Expr, out: &mut Vec<Tok>) {
    emit(e, Ctx::Top, out)
}

fn emit(e: &Expr, ctx: Ctx, out: &mut Vec<Tok>) {
    match e {
        Expr::Lit { chars, insensitive, dq } => out.push(Tok { s: lit_text(chars, *insensitive, *dq) }),
        Expr::Range { from, to } => {
            out.push(Tok { s: range_part_text(from) });
            out.push(t(".."));
            out.push(Tok { s: range_part_text(to) });
        }
        Expr::Eoi => out.push(t("$")),
        Expr::Ref { name, boxed, rule } => {
            match name {
                FieldName::None => {}
                FieldName::Named(n) => {
                    out.push(t(n));
                    out.push(t(":"));
                }
                FieldName::Override => {
                    out.push(t("@"));
                    out.push(t(":"));
                }
            }
            if *boxed && *name != FieldName::None {
                out.push(t("*"));
            }
            out.push(t(rule));
        }
        Expr::Include(r) => {
            out.push(t(">"));
            out.push(t(r));
        }
        Expr::Seq(v) => {
            let need = ctx >= Ctx::Part || v.len() < 2;
            // a sequence of fewer than two parts cannot be told from its content in text: parenthesise
            if need {
                out.push(t("("));
            }
            for p in v {
                emit(p, Ctx::Part, out);
            }
            if need {
                out.push(t(")"));
            }
        }
        Expr::Choice(v) => {
            let need = ctx >= Ctx::Arm || v.len() < 2;
            if need {
                out.push(t("("));
            }
            for (i, a) in v.iter().enumerate() {
                if i > 0 {
                    out.push(t("|"));
                }
                // an empty sequence as one of several alternatives is written as nothing at all: `a | | b`
                if v.len() >= 2 && matches!(a, Expr::Seq(x) if x.is_empty()) {
                    continue;
                }
                emit(a, Ctx::Arm, out);
            }
            if need {
                out.push(t(")"));
            }
        }
        Expr::Opt(b) => {
            out.push(t("["));
            emit(b, Ctx::Top, out);
            out.push(t("]"));
        }
        Expr::Star(b) => {
            out.push(t("{"));
            emit(b, Ctx::Top, out);
            out.push(t("}"));
        }
        Expr::Plus(b) => {
            out.push(t("{"));
            emit(b, Ctx::Top, out);
            out.push(t("}"));
            out.push(t("+"));
        }
        Expr::Not(b) => {
            out.push(t("!"));
            emit(b, Ctx::Operand, out);
        }
        Expr::And(b) => {
            out.push(t("&"));
            emit(b, Ctx::Operand, out);
        }
        Expr::Group(b) => {
            out.push(t("("));
            emit(b, Ctx::Top, out);
            out.push(t(")"));
        }
    }
}

/// Does the printer put parentheses around `e` in this position? (used by the structure renderer,
/// which must produce a `Group` node exactly where the text has parentheses)
pub fn needs_parens_in_seq(e: &Expr) -> bool {
    matches!(e, Expr::Seq(_) | Expr::Choice(_))
}
pub fn needs_parens_in_arm(e: &Expr) -> bool {
    match e {
        Expr::Choice(_) => true,
        Expr::Seq(v) => v.len() < 2,
        _ => false,
    }
}
pub fn needs_parens_top(e: &Expr) -> bool {
    match e {
        Expr::Choice(v) | Expr::Seq(v) => v.len() < 2,
        _ => false,
    }
}

fn directive_tokens(d: &Directive, out: &mut Vec<Tok>) {
    match d {
        Directive::Export => out.push(t("@export")),
        Directive::NoSkipWs => out.push(t("@no_skip_ws")),
        Directive::Position => out.push(t("@position")),
        Directive::String => out.push(t("@string")),
        Directive::Memoize => out.push(t("@memoize")),
        Directive::Leftrec => out.push(t("@leftrec")),
        Directive::Check(path) => {
            out.push(t("@check"));
            out.push(t("("));
            path_tokens(path, out);
            out.push(t(")"));
        }
    }
}

fn path_tokens(path: &[String], out: &mut Vec<Tok>) {
    for (i, p) in path.iter().enumerate() {
        if i > 0 {
            out.push(t("::"));
        }
        out.push(t(p));
    }
}

pub fn rule_tokens(r: &Rule, out: &mut Vec<Tok>) {
    match &r.def {
        RuleDef::Normal(body) => {
            for d in &r.directives {
                directive_tokens(d, out);
            }
            out.push(t(&r.name));
            out.push(t("="));
            emit(body, Ctx::Top, out);
        }
        RuleDef::Char { parts, checks_before } => {
            let checks: Vec<&Directive> = r.directives.iter().filter(|d| matches!(d, Directive::Check(_))).collect();
            for d in checks.iter().take(*checks_before) {
                directive_tokens(d, out);
            }
            out.push(t("@char"));
            for d in checks.iter().skip(*checks_before) {
                directive_tokens(d, out);
            }
            out.push(t(&r.name));
            out.push(t("="));
            for (i, p) in parts.iter().enumerate() {
                if i > 0 {
                    out.push(t("|"));
                }
                match p {
                    CharPart::Char(c) => out.push(Tok { s: range_part_text(c) }),
                    CharPart::Range(a, b) => {
                        out.push(Tok { s: range_part_text(a) });
                        out.push(t(".."));
                        out.push(Tok { s: range_part_text(b) });
                    }
                    CharPart::Ident(n) => out.push(t(n)),
                }
            }
        }
        RuleDef::Extern { func, ret } => {
            out.push(t("@extern"));
            out.push(t("("));
            path_tokens(func, out);
            if let Some(r) = ret {
                out.push(t("->"));
                path_tokens(r, out);
            }
            out.push(t(")"));
            out.push(t(&r.name));
        }
    }
    out.push(t(";"));
}

pub fn grammar_tokens(g: &Grammar) -> Vec<Tok> {
    let mut out = Vec::new();
    for r in &g.rules {
        rule_tokens(r, &mut out);
    }
    out
}

/// canonical text: one space between tokens, one rule per line
pub fn grammar_text(g: &Grammar) -> String {
    let mut s = String::new();
    for r in &g.rules {
        let mut toks = Vec::new();
        rule_tokens(r, &mut toks);
        let strs: Vec<&str> = toks.iter().map(|t| t.s.as_str()).collect();
        s.push_str(&strs.join(" "));
        s.push('\n');
    }
    s
}

pub fn expr_text(e: &Expr) -> String {
    let mut toks = Vec::new();
    expr_tokens(e, &mut toks);
    toks.iter().map(|t| t.s.as_str()).collect::<Vec<_>>().join(" ")
}
