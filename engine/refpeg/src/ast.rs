//! Grammar AST of the reference model. Deliberately plain data.

use std::collections::{BTreeMap, BTreeSet};

#[derive(Clone, Debug, PartialEq, Eq, Hash, PartialOrd, Ord)]
pub enum Spelling {
    /// the character itself
    Raw,
    /// `\n \r \t \\ \' \"`
    Simple,
    /// `\xXX`
    Hex { upper: bool },
    /// `\uXXXX`
    U4 { upper: bool },
    /// `\U00XXXXXX`
    U8 { upper: bool },
    /// `\u{X..}` with the given total number of digits (leading zeros added)
    Brace { digits: u8, upper: bool },
}

#[derive(Clone, Debug, PartialEq, Eq, Hash, PartialOrd, Ord)]
pub struct LitChar {
    pub c: char,
    pub sp: Spelling,
}

impl LitChar {
    /// canonical spelling of a character inside a literal delimited by `quote`
    pub fn canon(c: char) -> LitChar {
        let sp = match c {
            '\n' | '\r' | '\t' | '\\' | '\'' | '"' => Spelling::Simple,
            c if (c as u32) < 0x20 || c as u32 == 0x7f => Spelling::Hex { upper: false },
            _ => Spelling::Raw,
        };
        LitChar { c, sp }
    }
    pub fn text(&self) -> String {
        let v = self.c as u32;
        let hex = |n: usize, upper: bool| {
            let s = format!("{:0width$x}", v, width = n);
            if upper {
                s.to_uppercase()
            } else {
                s
            }
        };
        match &self.sp {
            Spelling::Raw => self.c.to_string(),
            Spelling::Simple => match self.c {
                '\n' => "\\n".into(),
                '\r' => "\\r".into(),
                '\t' => "\\t".into(),
                '\\' => "\\\\".into(),
                '\'' => "\\'".into(),
                '"' => "\\\"".into(),
                _ => panic!("no simple escape for {:?}", self.c),
            },
            Spelling::Hex { upper } => format!("\\x{}", hex(2, *upper)),
            Spelling::U4 { upper } => format!("\\u{}", hex(4, *upper)),
            Spelling::U8 { upper } => format!("\\U{}", hex(8, *upper)),
            Spelling::Brace { digits, upper } => format!("\\u{{{}}}", hex(*digits as usize, *upper)),
        }
    }
}

#[derive(Clone, Debug, PartialEq, Eq, Hash, PartialOrd, Ord)]
pub enum FieldName {
    None,
    Named(String),
    Override,
}

#[derive(Clone, Debug, PartialEq, Eq, Hash, PartialOrd, Ord)]
pub enum Expr {
    Lit { chars: Vec<LitChar>, insensitive: bool, dq: bool },
    Range { from: LitChar, to: LitChar },
    Eoi,
    Ref { name: FieldName, boxed: bool, rule: String },
    Include(String),
    Seq(Vec<Expr>),
    Choice(Vec<Expr>),
    Opt(Box<Expr>),
    Star(Box<Expr>),
    Plus(Box<Expr>),
    Not(Box<Expr>),
    And(Box<Expr>),
    /// explicit (possibly redundant) parentheses
    Group(Box<Expr>),
}

pub fn lit(s: &str) -> Expr {
    Expr::Lit { chars: s.chars().map(LitChar::canon).collect(), insensitive: false, dq: false }
}
pub fn ilit(s: &str) -> Expr {
    Expr::Lit { chars: s.chars().map(LitChar::canon).collect(), insensitive: true, dq: false }
}
pub fn range(a: char, b: char) -> Expr {
    Expr::Range { from: LitChar::canon(a), to: LitChar::canon(b) }
}
pub fn rref(rule: &str) -> Expr {
    Expr::Ref { name: FieldName::None, boxed: false, rule: rule.into() }
}
pub fn field(name: &str, rule: &str) -> Expr {
    Expr::Ref { name: FieldName::Named(name.into()), boxed: false, rule: rule.into() }
}
pub fn bfield(name: &str, rule: &str) -> Expr {
    Expr::Ref { name: FieldName::Named(name.into()), boxed: true, rule: rule.into() }
}
pub fn over(rule: &str) -> Expr {
    Expr::Ref { name: FieldName::Override, boxed: false, rule: rule.into() }
}
pub fn bover(rule: &str) -> Expr {
    Expr::Ref { name: FieldName::Override, boxed: true, rule: rule.into() }
}
pub fn inc(rule: &str) -> Expr {
    Expr::Include(rule.into())
}
pub fn seq(v: Vec<Expr>) -> Expr {
    Expr::Seq(v)
}
pub fn choice(v: Vec<Expr>) -> Expr {
    Expr::Choice(v)
}
pub fn opt(e: Expr) -> Expr {
    Expr::Opt(Box::new(e))
}
pub fn star(e: Expr) -> Expr {
    Expr::Star(Box::new(e))
}
pub fn plus(e: Expr) -> Expr {
    Expr::Plus(Box::new(e))
}
pub fn not(e: Expr) -> Expr {
    Expr::Not(Box::new(e))
}
pub fn and(e: Expr) -> Expr {
    Expr::And(Box::new(e))
}
pub fn group(e: Expr) -> Expr {
    Expr::Group(Box::new(e))
}

impl Expr {
    pub fn size(&self) -> usize {
        match self {
            Expr::Seq(v) | Expr::Choice(v) => 1 + v.iter().map(|e| e.size()).sum::<usize>(),
            Expr::Opt(e) | Expr::Star(e) | Expr::Plus(e) | Expr::Not(e) | Expr::And(e) | Expr::Group(e) => 1 + e.size(),
            _ => 1,
        }
    }
    pub fn children(&self) -> Vec<&Expr> {
        match self {
            Expr::Seq(v) | Expr::Choice(v) => v.iter().collect(),
            Expr::Opt(e) | Expr::Star(e) | Expr::Plus(e) | Expr::Not(e) | Expr::And(e) | Expr::Group(e) => vec![e],
            _ => vec![],
        }
    }
    pub fn visit<'a>(&'a self, f: &mut dyn FnMut(&'a Expr)) {
        f(self);
        for c in self.children() {
            c.visit(f);
        }
    }
    /// replace every sub-expression for which `f` returns Some
    pub fn map(&self, f: &dyn Fn(&Expr) -> Option<Expr>) -> Expr {
        if let Some(e) = f(self) {
            return e;
        }
        match self {
            Expr::Seq(v) => Expr::Seq(v.iter().map(|e| e.map(f)).collect()),
            Expr::Choice(v) => Expr::Choice(v.iter().map(|e| e.map(f)).collect()),
            Expr::Opt(e) => Expr::Opt(Box::new(e.map(f))),
            Expr::Star(e) => Expr::Star(Box::new(e.map(f))),
            Expr::Plus(e) => Expr::Plus(Box::new(e.map(f))),
            Expr::Not(e) => Expr::Not(Box::new(e.map(f))),
            Expr::And(e) => Expr::And(Box::new(e.map(f))),
            Expr::Group(e) => Expr::Group(Box::new(e.map(f))),
            other => other.clone(),
        }
    }
}

#[derive(Clone, Debug, PartialEq, Eq, Hash, PartialOrd, Ord)]
pub enum Directive {
    Export,
    NoSkipWs,
    Position,
    String,
    Memoize,
    Leftrec,
    Check(Vec<String>),
}

#[derive(Clone, Debug, PartialEq, Eq, Hash, PartialOrd, Ord)]
pub enum CharPart {
    Char(LitChar),
    Range(LitChar, LitChar),
    Ident(String),
}

#[derive(Clone, Debug, PartialEq, Eq, Hash, PartialOrd, Ord)]
pub enum RuleDef {
    Normal(Expr),
    /// `checks_before`: how many of the rule's Check directives are written before `@char`
    Char { parts: Vec<CharPart>, checks_before: usize },
    Extern { func: Vec<String>, ret: Option<Vec<String>> },
}

#[derive(Clone, Debug, PartialEq, Eq, Hash, PartialOrd, Ord)]
pub struct Rule {
    pub name: String,
    pub directives: Vec<Directive>,
    pub def: RuleDef,
}

#[derive(Clone, Debug, Default)]
pub struct Flags {
    pub export: bool,
    pub no_skip_ws: bool,
    pub position: bool,
    pub string: bool,
    pub memoize: bool,
    pub leftrec: bool,
}

impl Rule {
    pub fn normal(name: &str, directives: Vec<Directive>, body: Expr) -> Rule {
        Rule { name: name.into(), directives, def: RuleDef::Normal(body) }
    }
    pub fn chr(name: &str, parts: Vec<CharPart>) -> Rule {
        Rule { name: name.into(), directives: vec![], def: RuleDef::Char { parts, checks_before: 0 } }
    }
    pub fn ext(name: &str, func: &str, ret: Option<&str>) -> Rule {
        Rule {
            name: name.into(),
            directives: vec![],
            def: RuleDef::Extern {
                func: func.split("::").map(String::from).collect(),
                ret: ret.map(|r| r.split("::").map(String::from).collect()),
            },
        }
    }
    pub fn flags(&self) -> Flags {
        let mut f = Flags::default();
        for d in &self.directives {
            match d {
                Directive::Export => f.export = true,
                Directive::NoSkipWs => f.no_skip_ws = true,
                Directive::Position => f.position = true,
                Directive::String => f.string = true,
                Directive::Memoize => f.memoize = true,
                Directive::Leftrec => f.leftrec = true,
                Directive::Check(_) => {}
            }
        }
        f
    }
    pub fn checks(&self) -> Vec<String> {
        self.directives
            .iter()
            .filter_map(|d| if let Directive::Check(p) = d { Some(p.join("::")) } else { None })
            .collect()
    }
    pub fn body(&self) -> Option<&Expr> {
        if let RuleDef::Normal(e) = &self.def {
            Some(e)
        } else {
            None
        }
    }
}

#[derive(Clone, Debug, PartialEq, Eq, Hash, PartialOrd, Ord, Default)]
pub struct Grammar {
    pub rules: Vec<Rule>,
}

/// How a rule presents itself as a value
#[derive(Clone, Debug, PartialEq, Eq)]
pub enum RuleKind {
    /// struct (possibly unit) with these fields
    Struct,
    /// `@string` rule
    Str,
    /// override rule with exactly one type: alias
    Alias,
    /// override rule with several types: enum
    Enum,
    Char,
    Extern,
}

impl Grammar {
    pub fn rule(&self, name: &str) -> Option<&Rule> {
        self.rules.iter().find(|r| r.name == name)
    }
    pub fn has(&self, name: &str) -> bool {
        self.rule(name).is_some()
    }

    /// field name -> set of (type name), syntactic union, looking through includes.
    /// The override marker is the field `_override`.
    pub fn field_types(&self, e: &Expr) -> BTreeMap<String, BTreeSet<String>> {
        let mut out = BTreeMap::new();
        let mut stack = Vec::new();
        self.collect_fields(e, &mut out, &mut stack);
        out
    }
    fn collect_fields(&self, e: &Expr, out: &mut BTreeMap<String, BTreeSet<String>>, stack: &mut Vec<String>) {
        match e {
            Expr::Ref { name, rule, .. } => {
                let n = match name {
                    FieldName::None => return,
                    FieldName::Named(n) => n.clone(),
                    FieldName::Override => "_override".to_string(),
                };
                out.entry(n).or_insert_with(BTreeSet::new).insert(rule.clone());
            }
            Expr::Include(r) => {
                if stack.contains(r) {
                    return;
                }
                if let Some(Rule { def: RuleDef::Normal(b), .. }) = self.rule(r) {
                    stack.push(r.clone());
                    self.collect_fields(b, out, stack);
                    stack.pop();
                }
            }
            _ => {
                for c in e.children() {
                    self.collect_fields(c, out, stack);
                }
            }
        }
    }

    pub fn kind(&self, r: &Rule) -> RuleKind {
        match &r.def {
            RuleDef::Char { .. } => RuleKind::Char,
            RuleDef::Extern { .. } => RuleKind::Extern,
            RuleDef::Normal(b) => {
                if r.flags().string {
                    return RuleKind::Str;
                }
                let ft = self.field_types(b);
                if ft.len() == 1 && ft.contains_key("_override") {
                    if ft["_override"].len() > 1 {
                        RuleKind::Enum
                    } else {
                        RuleKind::Alias
                    }
                } else {
                    RuleKind::Struct
                }
            }
        }
    }
}
