//! Corpus for C03: rule shapes x names x derive sets; judged by rustc through generated assertions.

use super::e1::{bundles, c02_leaves, root_grammar};
use super::*;
use crate::wf;

pub fn derive_sets() -> Vec<Option<Vec<String>>> {
    let v = |xs: &[&str]| Some(xs.iter().map(|s| s.to_string()).collect::<Vec<_>>());
    vec![None, v(&[]), v(&["Debug"]), v(&["Clone"]), v(&["Debug", "Clone", "PartialEq", "Eq"])]
}

pub fn c03(tier: Tier) -> Vec<Case> {
    let mut b = Builder::new();
    let dsets = derive_sets();
    let none = InputSpec::List(vec![]);
    let mut n = 0usize;
    let mut add = |b: &mut Builder, family: &str, g: Grammar| {
        if !wf::well_formed(&g) {
            return;
        }
        let d = dsets[n % dsets.len()].clone();
        // @memoize needs Clone
        let has_memo = g.rules.iter().any(|r| r.flags().memoize || r.flags().leftrec);
        let d = if has_memo && d.as_ref().map(|v| !v.iter().any(|x| x == "Clone")).unwrap_or(false) { None } else { d };
        // the harness' check functions print their argument (T: Debug): grammars with @check get a set with Debug
        let has_check = g.rules.iter().any(|r| r.directives.iter().any(|x| matches!(x, Directive::Check(_))));
        let d = if has_check && d.as_ref().map(|v| !v.iter().any(|x| x == "Debug")).unwrap_or(false) { None } else { d };
        if b.add(family, g, none.clone()) {
            b.last().derives = d;
            n += 1;
        }
    };
    // (1) the C02 shape space, with @position alternating on the root and leaves
    for (i, c) in super::e1::c02(tier).into_iter().enumerate() {
        let mut g = c.grammar.clone();
        if i % 2 == 0 {
            for r in &mut g.rules {
                if matches!(r.def, RuleDef::Normal(_)) && g_kind_struct(&c.grammar, r) && i % 4 == 0 || r.name == "Root" {
                    if !r.directives.contains(&Directive::Position) {
                        r.directives.push(Directive::Position);
                    }
                }
            }
        }
        add(&mut b, &format!("shapes/{}", c.family), g);
    }
    // (2) rule kinds
    let leaves = c02_leaves();
    let kinds: Vec<(&str, Vec<Rule>)> = vec![
        ("string", vec![Rule::normal("K", vec![Directive::String], seq(vec![lit("k"), opt(field("f", "X"))]))]),
        ("string-position", vec![Rule::normal("K", vec![Directive::String, Directive::Position], plus(lit("k")))]),
        ("char", vec![Rule::chr("K", vec![CharPart::Char(LitChar::canon('k')), CharPart::Range(LitChar::canon('a'), LitChar::canon('c'))])]),
        ("char-any-then-rule", vec![Rule::chr("K", vec![CharPart::Ident("char".into()), CharPart::Ident("K2".into())]), Rule::chr("K2", vec![CharPart::Char(LitChar::canon('k'))])]),
        ("char-rule-then-any", vec![Rule::chr("K", vec![CharPart::Ident("K2".into()), CharPart::Ident("char".into())]), Rule::chr("K2", vec![CharPart::Char(LitChar::canon('k'))])]),
        ("char-any-twice", vec![Rule::chr("K", vec![CharPart::Ident("char".into()), CharPart::Char(LitChar::canon('k')), CharPart::Ident("char".into())])]),
        ("extern", vec![Rule::ext("K", "hrt::user::tok", None)]),
        ("extern-typed", vec![Rule::ext("K", "hrt::user::tokt", Some("hrt::user::Tok"))]),
        ("unit", vec![Rule::normal("K", vec![], seq(vec![lit("k"), rref("X")]))]),
        ("unit-position", vec![Rule::normal("K", vec![Directive::Position], lit("k"))]),
        ("alias-opt", vec![Rule::normal("K", vec![], opt(over("X")))]),
        ("alias-vec", vec![Rule::normal("K", vec![], star(seq(vec![lit("k"), bover("X")])))]),
        ("alias-char", vec![Rule::normal("K", vec![], seq(vec![lit("k"), over("char")]))]),
        ("enum-pos", vec![
            Rule::normal("K", vec![Directive::Position], choice(vec![over("P1"), bover("P2")])),
            Rule::normal("P1", vec![Directive::Position], lit("p")),
            Rule::normal("P2", vec![Directive::Position, Directive::Memoize], seq(vec![lit("q"), opt(field("f", "X"))])),
        ]),
    ];
    for (kn, krules) in &kinds {
        for (bn, bu) in bundles() {
            for wrap in [field("k", "K"), opt(field("k", "K")), star(field("k", "K")), choice(vec![field("k", "K"), field("k", "X")]), bfield("k", "K")] {
                let mut l = krules.clone();
                l.extend(leaves.iter().cloned());
                let g = root_grammar(vec![Directive::Export], seq(vec![wrap.clone(), bu.clone()]), &l);
                add(&mut b, &format!("kinds/{kn}/{bn}"), g);
            }
        }
    }
    // (2b) @string rules whose (ignored) body carries every field bundle, overrides included
    for (bn, bu) in bundles() {
        for extra in [vec![Directive::String], vec![Directive::String, Directive::Position], vec![Directive::String, Directive::NoSkipWs, Directive::Memoize]] {
            let mut l = vec![Rule::normal("K", extra.clone(), seq(vec![lit("k"), bu.clone()]))];
            l.extend(leaves.iter().cloned());
            let g = root_grammar(vec![Directive::Export], seq(vec![field("k", "K"), opt(field("k2", "K"))]), &l);
            add(&mut b, &format!("kinds/string-with-fields/{bn}"), g);
        }
    }
    for body in [choice(vec![over("X"), over("Y")]), seq(vec![lit("k"), over("X")]), star(choice(vec![over("X"), seq(vec![lit("y"), over("Y")])]))] {
        for ds in [vec![Directive::String], vec![Directive::String, Directive::Position], vec![Directive::Position, Directive::Memoize, Directive::String]] {
            let mut l = vec![Rule::normal("K", ds, body.clone())];
            l.extend(leaves.iter().cloned());
            let g = root_grammar(vec![Directive::Export], field("k", "K"), &l);
            add(&mut b, "kinds/string-with-override", g);
        }
    }
    // (2c) the guard for memoization: @memoize / @leftrec on every rule kind under derive sets WITHOUT Clone.
    // The compiler may reject these (documented for @memoize); whatever it accepts must compile.
    for (kn, krules) in &kinds {
        for dir in [Directive::Memoize, Directive::Leftrec] {
            for d in [Some(vec![]), Some(vec!["Debug".to_string()])] {
                let mut l = krules.clone();
                let mut applicable = false;
                for r in &mut l {
                    if r.name == "K" && matches!(r.def, RuleDef::Normal(_)) {
                        r.directives.push(dir.clone());
                        applicable = true;
                    }
                }
                if !applicable {
                    continue;
                }
                l.extend(leaves.iter().cloned());
                let g = root_grammar(vec![Directive::Export], seq(vec![field("k", "K"), opt(field("f", "X"))]), &l);
                if !wf::well_formed(&g) {
                    continue;
                }
                if b.add(&format!("guard/memo-without-clone/{kn}"), g, none.clone()) {
                    b.last().derives = d.clone();
                    b.last().note = "may-be-rejected".into();
                }
            }
        }
    }
    // (3) recursive shapes: the cycle is broken by `*` or by a Vec
    let rec_bodies = vec![
        seq(vec![lit("a"), opt(bfield("r", "R"))]),
        seq(vec![lit("a"), star(field("r", "R"))]),
        choice(vec![seq(vec![lit("("), bfield("r", "R"), lit(")")]), field("x", "X")]),
        seq(vec![lit("a"), opt(bfield("r", "R")), opt(bfield("r", "R"))]),
        choice(vec![seq(vec![lit("a"), bfield("r", "R")]), seq(vec![lit("b"), field("r", "X")])]),
        // marked in one occurrence only: the box must stick to the type
        choice(vec![seq(vec![lit("a"), bfield("r", "R")]), seq(vec![lit("b"), field("r", "R"), lit("c")]), lit("d")]),
        seq(vec![lit("a"), opt(field("e", "E"))]),
        // marked in a LATER occurrence only
        choice(vec![seq(vec![lit("b"), field("r", "X"), lit("c")]), seq(vec![lit("a"), bfield("r", "X")]), lit("d")]),
        choice(vec![seq(vec![lit("("), field("r", "R"), lit(")")]), seq(vec![lit("["), bfield("r", "R"), lit("]")]), lit("x")]),
        seq(vec![field("p", "X"), lit(","), bfield("p", "X")]),
        choice(vec![seq(vec![lit("a"), field("p", "X")]), seq(vec![lit("b"), field("p", "Y")]), seq(vec![lit("c"), bfield("p", "X")])]),
        seq(vec![opt(field("p", "X")), star(seq(vec![lit(","), bfield("p", "X")]))]),
    ];
    for body in rec_bodies {
        for extra in [
            vec![],
            vec![Directive::Position],
            vec![Directive::Memoize],
            vec![Directive::Leftrec],
            // redundant but legal combinations of the caching directives
            vec![Directive::Memoize, Directive::Leftrec],
            vec![Directive::Leftrec, Directive::Position, Directive::Memoize],
        ] {
            let e_rule = Rule::normal("E", vec![], choice(vec![bover("R"), over("X")]));
            let mut l = vec![Rule::normal("R", extra.clone(), body.clone()), e_rule];
            l.extend(leaves.iter().cloned());
            let g = root_grammar(vec![Directive::Export], field("r", "R"), &l);
            add(&mut b, "recursive", g);
        }
    }
    // (4) keyword names
    let keywords = [
        "as", "break", "const", "continue", "else", "enum", "extern", "false", "fn", "for", "if", "impl", "in", "let", "loop", "match", "mod", "move",
        "mut", "pub", "ref", "return", "static", "struct", "trait", "true", "type", "unsafe", "use", "where", "while", "async", "await", "dyn",
        "abstract", "become", "box", "do", "final", "macro", "override", "priv", "typeof", "unsized", "virtual", "yield", "try",
    ];
    for kw in keywords {
        // as a field name, in every arity, single and multi type
        let g = Grammar {
            rules: vec![
                Rule::normal("Root", vec![Directive::Export, Directive::Position], seq(vec![field(kw, "X"), opt(field("o", "Kw")), star(field("v", "Kw"))])),
                Rule::normal("Kw", vec![], choice(vec![field(kw, "X"), seq(vec![lit("y"), field(kw, "Y"), field(kw, "Y")])])),
                Rule::normal("X", vec![Directive::String], lit("x")),
                Rule::normal("Y", vec![Directive::String], lit("y")),
            ],
        };
        add(&mut b, "keywords/field", g);
        // as a rule name: struct, field type, enum variant, override target, include
        let g = Grammar {
            rules: vec![
                Rule::normal("Root", vec![Directive::Export], seq(vec![field("a", kw), opt(bfield("b", kw)), star(field("e", "En")), opt(field("m", "X")), opt(field("m", kw))])),
                Rule::normal(kw, vec![Directive::Position, Directive::Memoize], seq(vec![lit("k"), opt(field("x", "X"))])),
                Rule::normal("En", vec![], choice(vec![over(kw), over("X")])),
                Rule::normal("Al", vec![], seq(vec![lit("z"), over(kw)])),
                Rule::normal("Us", vec![Directive::Export], seq(vec![field("al", "Al"), inc(kw)])),
                Rule::normal("X", vec![Directive::String], lit("x")),
            ],
        };
        add(&mut b, "keywords/rule", g);
        // as a @char / @string / extern rule name
        let g = Grammar {
            rules: vec![
                Rule::normal("Root", vec![Directive::Export], seq(vec![field("c", kw), star(field("s", "St"))])),
                Rule::chr(kw, vec![CharPart::Char(LitChar::canon('q'))]),
                Rule::normal("St", vec![Directive::String], seq(vec![rref(kw), opt(rref(kw))])),
            ],
        };
        add(&mut b, "keywords/char-rule", g);
    }
    b.cases
}

fn g_kind_struct(g: &Grammar, r: &Rule) -> bool {
    g.kind(r) == RuleKind::Struct
}
