//! Corpora: for each property and tier, the deterministic list of cases (grammar + inputs + settings)
//! that the explorers enumerate. The same function is called by the generator (`pgen`) and by every
//! harness shard, so that a case id means the same grammar on both sides (guarded by a text hash).

use crate::ast::*;
use crate::enumerate::*;
use crate::print::grammar_text;

pub mod c03;
pub mod e1;
pub mod e1b;

#[derive(Clone, Debug, PartialEq, Eq)]
pub enum InputSpec {
    /// all strings over the alphabet up to the length (in characters)
    Strings { alphabet: Vec<char>, max_len: usize },
    /// all concatenations of up to max_len pieces
    Pieces { pieces: Vec<String>, max_len: usize },
    List(Vec<String>),
    /// union
    Multi(Vec<InputSpec>),
}

impl InputSpec {
    pub fn materialize(&self) -> Vec<String> {
        match self {
            InputSpec::Strings { alphabet, max_len } => strings(alphabet, *max_len),
            InputSpec::Pieces { pieces, max_len } => {
                let p: Vec<&str> = pieces.iter().map(|s| s.as_str()).collect();
                piece_strings(&p, *max_len)
            }
            InputSpec::List(v) => v.clone(),
            InputSpec::Multi(v) => {
                let mut out = Vec::new();
                let mut seen = std::collections::BTreeSet::new();
                for s in v {
                    for x in s.materialize() {
                        if seen.insert(x.clone()) {
                            out.push(x);
                        }
                    }
                }
                out
            }
        }
    }
    pub fn describe(&self) -> String {
        match self {
            InputSpec::Strings { alphabet, max_len } => format!("all strings over {:?} up to {} chars", alphabet, max_len),
            InputSpec::Pieces { pieces, max_len } => format!("all concatenations of up to {} pieces of {:?}", max_len, pieces),
            InputSpec::List(v) => format!("{} listed inputs", v.len()),
            InputSpec::Multi(v) => v.iter().map(|s| s.describe()).collect::<Vec<_>>().join(" + "),
        }
    }
}

#[derive(Clone, Debug)]
pub struct Case {
    pub id: usize,
    /// cases of one group are variants compared with each other (variant 0 is the base)
    pub group: usize,
    pub variant: usize,
    pub family: String,
    pub grammar: Grammar,
    pub text: String,
    pub root: String,
    /// None = default derive set
    pub derives: Option<Vec<String>>,
    pub user_ctx: bool,
    pub inputs: InputSpec,
    /// free-form per-property parameter
    pub note: String,
}

pub struct Builder {
    pub cases: Vec<Case>,
    next_group: usize,
    seen: std::collections::BTreeSet<u64>,
}

impl Builder {
    pub fn new() -> Self {
        Builder { cases: Vec::new(), next_group: 0, seen: Default::default() }
    }
    pub fn new_group(&mut self) -> usize {
        self.next_group += 1;
        self.next_group - 1
    }
    /// add a single-case group; duplicates (same text + root + note + family) are dropped
    pub fn add(&mut self, family: &str, grammar: Grammar, inputs: InputSpec) -> bool {
        let g = self.new_group();
        self.add_variant(g, 0, family, grammar, inputs, "")
    }
    pub fn add_variant(&mut self, group: usize, variant: usize, family: &str, grammar: Grammar, inputs: InputSpec, note: &str) -> bool {
        let text = grammar_text(&grammar);
        let key = fnv(&format!("{text}\u{0}{note}\u{0}{variant}\u{0}{}", inputs.describe()));
        if variant == 0 && !self.seen.insert(key) {
            return false;
        }
        let id = self.cases.len();
        self.cases.push(Case {
            id,
            group,
            variant,
            family: family.into(),
            grammar,
            text,
            root: "Root".into(),
            derives: None,
            user_ctx: false,
            inputs,
            note: note.into(),
        });
        true
    }
    pub fn last(&mut self) -> &mut Case {
        self.cases.last_mut().unwrap()
    }
}

#[derive(Clone, Copy, Debug, PartialEq, Eq)]
pub enum Tier {
    Quick,
    Thorough,
}

impl Tier {
    pub fn parse(s: &str) -> Tier {
        match s {
            "quick" => Tier::Quick,
            "thorough" => Tier::Thorough,
            _ => panic!("tier must be quick or thorough"),
        }
    }
    pub fn name(&self) -> &'static str {
        match self {
            Tier::Quick => "quick",
            Tier::Thorough => "thorough",
        }
    }
}

/// The corpus of an E1-style property.
pub fn build(prop: &str, tier: Tier) -> Vec<Case> {
    match prop {
        "C01" => e1::c01(tier),
        "C03" => c03::c03(tier),
        "C02" => e1::c02(tier),
        "C04" => e1::c04(tier),
        "C08" => e1::c08(tier),
        "C09" => e1::c09(tier),
        "C10" => e1b::c10(tier),
        "C12" => e1::c12(tier),
        "C05" => e1b::c05(tier),
        "C06" => e1b::c06(tier),
        "C07" => e1b::c07(tier),
        "C13" => e1b::c13(tier),
        "C14" => e1b::c14(tier),
        "C19" => e1b::c19(tier),
        "C20" => e1b::c20(tier),
        other => panic!("no corpus for {other}"),
    }
}
