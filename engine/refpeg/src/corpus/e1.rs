//! Corpora for C01, C02, C04, C08, C09: (grammar, input) spaces compared with the reference interpreter.

use super::*;
use crate::wf;
use std::collections::BTreeSet;

pub fn d_export() -> Directive {
    Directive::Export
}

/// Keep only the rules reachable from `root` (unused rules only cost compile time).
pub fn prune(g: &Grammar, root: &str) -> Grammar {
    let mut keep: BTreeSet<String> = BTreeSet::new();
    let mut stack = vec![root.to_string()];
    if g.has("Whitespace") {
        stack.push("Whitespace".into());
    }
    while let Some(n) = stack.pop() {
        if !keep.insert(n.clone()) {
            continue;
        }
        if let Some(r) = g.rule(&n) {
            match &r.def {
                RuleDef::Normal(b) => b.visit(&mut |e| match e {
                    Expr::Ref { rule, .. } => stack.push(rule.clone()),
                    Expr::Include(rule) => stack.push(rule.clone()),
                    _ => {}
                }),
                RuleDef::Char { parts, .. } => {
                    for p in parts {
                        if let CharPart::Ident(i) = p {
                            stack.push(i.clone());
                        }
                    }
                }
                RuleDef::Extern { .. } => {}
            }
        }
    }
    Grammar { rules: g.rules.iter().filter(|r| keep.contains(&r.name)).cloned().collect() }
}

pub fn root_grammar(root_dirs: Vec<Directive>, body: Expr, leaves: &[Rule]) -> Grammar {
    let mut rules = vec![Rule::normal("Root", root_dirs, body)];
    rules.extend(leaves.iter().cloned());
    prune(&Grammar { rules }, "Root")
}

fn add_if_wf(b: &mut Builder, family: &str, g: Grammar, inputs: &InputSpec) -> bool {
    if !wf::well_formed(&g) {
        return false;
    }
    b.add(family, g, inputs.clone())
}

// ------------------------------------------------------------------------------------------- C01

fn c01_leaves() -> Vec<Rule> {
    vec![
        Rule::normal("X", vec![Directive::Position], choice(vec![lit("b"), seq(vec![lit("c"), lit("b")])])),
        Rule::chr("D", vec![CharPart::Char(LitChar::canon('c')), CharPart::Range(LitChar::canon('a'), LitChar::canon('a'))]),
        // a plain rule (no @position / @string / @no_skip_ws) that can match the empty string
        Rule::normal("Z", vec![], opt(lit("c"))),
    ]
}

/// case-insensitive literals of every printable ASCII character, against every 7-bit byte
fn insensitive_family(b: &mut Builder, tier: Tier) {
    let mut all_bytes: Vec<String> = (0u8..128).map(|x| (x as char).to_string()).collect();
    for x in 0u8..128 {
        all_bytes.push(format!("{}z", x as char));
        all_bytes.push(format!("{}Z", x as char));
    }
    all_bytes.push(String::new());
    all_bytes.push("é".into());
    let inputs = InputSpec::List(all_bytes);
    for c in 0x20u8..0x7f {
        let c = c as char;
        if tier == Tier::Quick && c.is_ascii_alphanumeric() && !"aZk09".contains(c) {
            continue;
        }
        for e in [ilit(&c.to_string()), ilit(&format!("{c}z")), seq(vec![ilit(&c.to_string()), opt(ilit("Z"))])] {
            for noskip in [true, false] {
                if c == ' ' && !noskip {
                    continue;
                }
                let mut dirs = vec![Directive::Export, Directive::Position];
                if noskip {
                    dirs.push(Directive::NoSkipWs);
                }
                let g = root_grammar(dirs, e.clone(), &[]);
                add_if_wf(b, "insensitive", g, &inputs);
            }
        }
    }
}

/// the same text as a case-sensitive and as a case-insensitive literal next to each other in choices and sequences
fn insensitive_mixed_family(b: &mut Builder, tier: Tier) {
    let atoms = vec![lit("k"), ilit("k"), lit("z"), ilit("kz")];
    let k = if tier == Tier::Quick { 5 } else { 6 };
    let inputs = InputSpec::Strings { alphabet: vec!['k', 'K', 'z', 'Z'], max_len: 4 };
    for e in trees(&atoms, &[Op::Opt, Op::Seq2, Op::Choice2], k) {
        let g = root_grammar(vec![Directive::Export, Directive::Position, Directive::NoSkipWs], e, &[]);
        add_if_wf(b, "insensitive-mixed", g, &inputs);
    }
}

/// choices with 15..34 alternatives (count boundaries at 16 and 32): the first alternative fails deep, the others are
/// distinct two-character literals (shared by C01 and C10)
pub fn wide_choice_family(b: &mut Builder, fam: &str) {
    let inputs = InputSpec::Pieces { pieces: vec!["b".into(), "c".into(), "d01".into(), "d16".into(), "d17".into(), "d33".into(), "x".into()], max_len: 4 };
    for n in [15usize, 16, 17, 18, 31, 32, 33, 34] {
        let mut alts: Vec<Expr> = vec![seq(vec![lit("b"), lit("b"), lit("b"), lit("c")])];
        for i in 1..n {
            alts.push(lit(&format!("d{i:02}")));
        }
        for (bi, body) in [seq(vec![choice(alts.clone()), opt(lit("x"))]), seq(vec![star(choice(alts.clone())), lit("x")])].into_iter().enumerate() {
            let _ = bi;
            let g = root_grammar(vec![Directive::Export, Directive::Position, Directive::NoSkipWs], body, &[]);
            add_if_wf(b, fam, g, &inputs);
        }
        // alternatives with fields (the choice keeps its own module, the result goes through the converter)
        let mut falts: Vec<Expr> = vec![seq(vec![lit("b"), field("f", "X"), lit("c")])];
        for i in 1..n {
            falts.push(if i % 5 == 0 { seq(vec![lit(&format!("d{i:02}")), opt(field("f", "X"))]) } else { lit(&format!("d{i:02}")) });
        }
        let g = root_grammar(vec![Directive::Export, Directive::Position, Directive::NoSkipWs], seq(vec![choice(falts), opt(lit("x"))]), &c01_leaves());
        add_if_wf(b, fam, g, &inputs);
    }
}

/// long inputs: repetition counts around powers of two (chunked scanning, counters, small-buffer shortcuts)
pub fn long_counts(tier: Tier) -> Vec<usize> {
    let mut v = vec![7, 8, 9, 15, 16, 17, 31, 32, 33, 63, 64, 65, 127, 128, 129, 255, 256, 257];
    if tier == Tier::Thorough {
        v.extend([511, 512, 513, 1023, 1024, 1025, 4095, 4096, 4097, 65535, 65536, 65537]);
    } else {
        v.extend([1024, 4097]);
    }
    v
}

fn long_family(b: &mut Builder, tier: Tier) {
    let leaves = c01_leaves();
    let mut inputs: Vec<String> = Vec::new();
    for n in long_counts(tier) {
        inputs.push("bc".repeat(n));
        inputs.push(format!("{}b", "bc".repeat(n)));
        inputs.push(format!("{}c", "b".repeat(n)));
        inputs.push(format!("{}bc", " ".repeat(n)));
        inputs.push(format!("b{}c", " ".repeat(n)));
        inputs.push(format!("{}cb{}", "cb".repeat(n / 2), " \t\n".repeat(n / 3)));
    }
    let spec = InputSpec::List(inputs);
    let bodies = vec![
        seq(vec![star(lit("bc")), Expr::Eoi]),
        seq(vec![star(rref("X")), opt(lit("c"))]),
        seq(vec![plus(choice(vec![lit("b"), seq(vec![lit("c"), lit("b")])])), opt(lit("c")), Expr::Eoi]),
        seq(vec![star(rref("char")), Expr::Eoi]),
        seq(vec![star(seq(vec![not(lit("c")), rref("char")])), lit("c")]),
        seq(vec![lit("b"), lit("c"), Expr::Eoi]),
        seq(vec![star(range('b', 'c')), star(rref("Z")), Expr::Eoi]),
    ];
    for e in bodies {
        for noskip in [false, true] {
            let mut dirs = vec![Directive::Export, Directive::Position];
            if noskip {
                dirs.push(Directive::NoSkipWs);
            }
            let g = root_grammar(dirs, e.clone(), &leaves);
            add_if_wf(b, "long-inputs", g, &spec);
        }
    }
}

pub fn c01(tier: Tier) -> Vec<Case> {
    let mut b = Builder::new();
    let leaves = c01_leaves();
    let full_atoms = vec![
        lit("b"),
        lit("bc"),
        ilit("B"),
        ilit("bC"),
        range('b', 'c'),
        rref("char"),
        Expr::Eoi,
        rref("X"),
        field("f", "X"),
        lit(""),
        rref("D"),
        rref("Z"),
    ];
    let small_atoms = vec![lit("b"), lit("bc"), rref("X"), Expr::Eoi];
    let (k_full, k_small, len) = match tier {
        Tier::Quick => (3, 4, 4),
        Tier::Thorough => (4, 5, 5),
    };
    let inputs = InputSpec::Strings { alphabet: vec!['a', 'b', 'c', 'B', ' '], max_len: len };
    let mut all: Vec<Expr> = trees(&full_atoms, &ALL_OPS, k_full);
    for t in trees_by_size(&small_atoms, &ALL_OPS, k_small).into_iter().skip(k_full) {
        all.extend(t);
    }
    for e in &all {
        for noskip in [false, true] {
            let mut dirs = vec![Directive::Export, Directive::Position];
            if noskip {
                dirs.push(Directive::NoSkipWs);
            }
            let g = root_grammar(dirs, e.clone(), &leaves);
            add_if_wf(&mut b, if noskip { "trees/no_skip_ws" } else { "trees/skip" }, g, &inputs);
        }
    }
    // escapes and @char classes
    charclass_family(&mut b, tier);
    insensitive_family(&mut b, tier);
    insensitive_mixed_family(&mut b, tier);
    long_family(&mut b, tier);
    wide_choice_family(&mut b, "wide-choice");
    // included rules whose body is a single token / rule call / choice of those, carrying the opposite skip mode of the
    // includer (the mode of the includer counts)
    {
        let inputs = InputSpec::Strings { alphabet: vec!['b', 'c', ' '], max_len: if tier == Tier::Quick { 5 } else { 6 } };
        let atoms = vec![lit("b"), inc("I1"), inc("I2"), inc("I3"), inc("I4")];
        for e in trees(&atoms, &NO_LOOKAHEAD_OPS, if tier == Tier::Quick { 3 } else { 4 }) {
            for root_noskip in [false, true] {
                let nd = |on: bool| if on { vec![Directive::NoSkipWs] } else { vec![] };
                let leaves = vec![
                    Rule::normal("I1", nd(!root_noskip), lit("c")),
                    Rule::normal("I2", nd(!root_noskip), choice(vec![lit("c"), seq(vec![lit("b"), lit("b")])])),
                    Rule::normal("I3", nd(!root_noskip), rref("X")),
                    Rule::normal("I4", nd(!root_noskip), seq(vec![lit("c"), lit("b")])),
                    Rule::normal("X", vec![Directive::Position], choice(vec![lit("b"), seq(vec![lit("c"), lit("b")])])),
                ];
                let mut dirs = vec![Directive::Export, Directive::Position];
                if root_noskip {
                    dirs.push(Directive::NoSkipWs);
                }
                let g = root_grammar(dirs, e.clone(), &leaves);
                add_if_wf(&mut b, "includes", g, &inputs);
            }
        }
    }
    // @leftrec rules are part of the quantifier: the left-recursive corpus (thinned), judged on acceptance and consumed bytes
    for (i, c) in super::e1b::c07(Tier::Quick).into_iter().enumerate() {
        if c.family.starts_with("leftrec/usual") && i % 4 != 0 {
            continue;
        }
        if b.add(&format!("peg/{}", c.family), c.grammar.clone(), c.inputs.clone()) {
            b.last().note = c.note.clone();
        }
    }
    b.cases
}

fn charclass_family(b: &mut Builder, tier: Tier) {
    let lc = |c: char| LitChar::canon(c);
    let sp = |c: char, sp: Spelling| LitChar { c, sp };
    let parts: Vec<CharPart> = vec![
        CharPart::Char(lc('b')),
        CharPart::Char(sp('c', Spelling::Hex { upper: false })),
        CharPart::Char(lc('é')),
        CharPart::Char(sp('é', Spelling::U4 { upper: true })),
        CharPart::Range(lc('b'), lc('c')),
        CharPart::Range(lc('à'), lc('ë')),
        CharPart::Range(sp('b', Spelling::Brace { digits: 2, upper: false }), sp('é', Spelling::U8 { upper: false })),
        CharPart::Ident("E".into()),
        CharPart::Ident("char".into()),
    ];
    let e_rule = Rule::chr("E", vec![CharPart::Char(lc('x')), CharPart::Char(lc('c'))]);
    let maxn = if tier == Tier::Quick { 2 } else { 3 };
    let inputs = InputSpec::Strings { alphabet: vec!['a', 'b', 'c', 'x', 'é', 'è', 'z'], max_len: if tier == Tier::Quick { 3 } else { 4 } };
    let mut lists: Vec<Vec<CharPart>> = vec![vec![]];
    let mut all: Vec<Vec<CharPart>> = Vec::new();
    for _ in 0..maxn {
        let mut next = Vec::new();
        for l in &lists {
            for p in &parts {
                let mut n = l.clone();
                n.push(p.clone());
                next.push(n);
            }
        }
        all.extend(next.iter().cloned());
        lists = next;
    }
    for l in all {
        for body in [star(field("c", "Cls")), seq(vec![field("c", "Cls"), opt(lit("z")), rref("Cls")])] {
            let g = root_grammar(
                vec![Directive::Export, Directive::Position, Directive::NoSkipWs],
                body,
                &[Rule::chr("Cls", l.clone()), e_rule.clone()],
            );
            add_if_wf(b, "charclass", g, &inputs);
        }
    }
    // literals and ranges in every escape spelling
    let pool: Vec<char> = vec!['b', '\n', '\t', '\\', '\'', '"', '\u{7f}', '\u{80}', 'é', '€', '😀'];
    let inputs2 = InputSpec::Strings { alphabet: vec!['b', '\n', '\\', '\'', '"', 'é', '€', '😀', '\u{80}', '\u{7f}', '\t'], max_len: 2 };
    for c in pool {
        for spell in spellings_for(c) {
            let l = LitChar { c, sp: spell.clone() };
            for dq in [false, true] {
                let e1 = Expr::Lit { chars: vec![l.clone()], insensitive: false, dq };
                let e2 = Expr::Lit { chars: vec![LitChar::canon('b'), l.clone()], insensitive: false, dq };
                for e in [e1, e2] {
                    let g = root_grammar(vec![Directive::Export, Directive::Position, Directive::NoSkipWs], seq(vec![e, opt(rref("char"))]), &[]);
                    add_if_wf(b, "escapes/literal", g, &inputs2);
                }
            }
            let r1 = Expr::Range { from: l.clone(), to: LitChar::canon('\u{10FFFF}') };
            let r2 = Expr::Range { from: LitChar::canon('\u{0}'), to: l.clone() };
            for e in [r1, r2] {
                let g = root_grammar(vec![Directive::Export, Directive::Position, Directive::NoSkipWs], seq(vec![e, opt(rref("char"))]), &[]);
                add_if_wf(b, "escapes/range", g, &inputs2);
            }
        }
    }
}

/// C12 (behavioural half): every spelling of pool characters, and literals made of several escapes next to
/// each other (CR LF, quote/backslash pairs...), run as parsers
pub fn c12(tier: Tier) -> Vec<Case> {
    let mut b = Builder::new();
    charclass_family(&mut b, tier);
    // what the directives of a rule denote when they meet override markers and each other, in every order
    {
        let leaves = c02_leaves();
        let inputs = InputSpec::Strings { alphabet: vec!['a', 'b', 'c'], max_len: if tier == Tier::Quick { 5 } else { 6 } };
        let bodies = vec![
            seq(vec![lit("c"), over("X"), lit("c")]),
            over("X"),
            choice(vec![seq(vec![lit("c"), over("X")]), over("Y")]),
            seq(vec![lit("c"), field("f", "X"), opt(lit("c"))]),
            seq(vec![over("X"), opt(lit("c"))]),
        ];
        let dsets: Vec<Vec<Directive>> = vec![
            vec![Directive::String, Directive::NoSkipWs],
            vec![Directive::NoSkipWs, Directive::String],
            vec![Directive::String],
            vec![Directive::String, Directive::NoSkipWs, Directive::Position],
            vec![Directive::Position, Directive::NoSkipWs, Directive::String],
            vec![Directive::Memoize, Directive::String, Directive::NoSkipWs],
            vec![Directive::NoSkipWs],
        ];
        for body in &bodies {
            for ds in &dsets {
                let mut l = vec![Rule::normal("R", ds.clone(), body.clone())];
                l.extend(leaves.iter().cloned());
                let g = root_grammar(vec![Directive::Export, Directive::NoSkipWs, Directive::Position], seq(vec![field("r", "R"), opt(field("t", "R"))]), &l);
                add_if_wf(&mut b, "directive-semantics", g, &inputs);
            }
        }
    }
    // what the brackets denote: every nesting of optional / closure / positive closure / group up to 4 nodes, run as parsers
    {
        let leaves = c02_leaves();
        let inputs = InputSpec::Strings { alphabet: vec!['a', 'b', 'c'], max_len: 4 };
        for e in trees(&[lit("a"), field("f", "X")], &[Op::Opt, Op::Star, Op::Plus, Op::Group, Op::Seq2], 4) {
            let g = root_grammar(vec![Directive::Export, Directive::NoSkipWs], seq(vec![e, opt(lit("c"))]), &leaves);
            add_if_wf(&mut b, "brackets", g, &inputs);
        }
    }
    // literals written next to each other with and without the case marker, with and without redundant parentheses:
    // each literal keeps its own marker
    {
        let inputs = InputSpec::Strings { alphabet: vec!['k', 'K', 'z', 'Z'], max_len: 4 };
        let lits = vec![lit("k"), ilit("k"), lit("z"), ilit("z"), ilit("kz"), lit("Z")];
        for a in &lits {
            for b2 in &lits {
                for third in [None, Some(lit("k")), Some(ilit("Z"))] {
                    for paren in [false, true] {
                        let mut parts = vec![a.clone(), if paren { Expr::Group(Box::new(b2.clone())) } else { b2.clone() }];
                        if let Some(t) = &third {
                            parts.push(t.clone());
                        }
                        for noskip in [true, false] {
                            let mut dirs = vec![Directive::Export, Directive::Position];
                            if noskip {
                                dirs.push(Directive::NoSkipWs);
                            }
                            let g = root_grammar(dirs, seq(parts.clone()), &[]);
                            add_if_wf(&mut b, "literal-sequences", g, &inputs);
                        }
                    }
                }
            }
        }
    }
    // what `!` and `&` denote for every kind of operand (`$`, literal, range, rule, `char`, a sequence), written with and
    // without redundant parentheses, in skipping and non-skipping rules: the negation / test of exactly that operand
    {
        let leaves = c02_leaves();
        let inputs = InputSpec::Strings { alphabet: vec!['a', 'b', 'c', ' '], max_len: if tier == Tier::Quick { 4 } else { 5 } };
        let operands = vec![Expr::Eoi, lit("b"), range('a', 'b'), rref("X"), rref("char"), seq(vec![lit("b"), Expr::Eoi]), ilit("B")];
        for operand in &operands {
            for negative in [true, false] {
                for paren in [0, 1, 2] {
                    let la = |inner: Expr| if negative { not(inner) } else { and(inner) };
                    let guard = match paren {
                        0 => la(operand.clone()),
                        1 => la(Expr::Group(Box::new(operand.clone()))),
                        _ => Expr::Group(Box::new(la(operand.clone()))),
                    };
                    if paren == 0 && matches!(operand, Expr::Seq(_)) {
                        continue;
                    }
                    for noskip in [true, false] {
                        let bodies = vec![
                            seq(vec![lit("a"), guard.clone(), opt(field("t", "X"))]),
                            seq(vec![star(seq(vec![guard.clone(), field("i", "X")])), opt(lit("c"))]),
                            choice(vec![seq(vec![lit("a"), guard.clone()]), seq(vec![lit("a"), opt(lit("c"))])]),
                        ];
                        for body in bodies {
                            let mut dirs = vec![Directive::Export, Directive::Position];
                            if noskip {
                                dirs.push(Directive::NoSkipWs);
                            }
                            let g = root_grammar(dirs, body, &leaves);
                            add_if_wf(&mut b, "lookahead-operands", g, &inputs);
                        }
                    }
                }
            }
        }
    }
    // many parts in one sequence, each in redundant brackets of one kind (or none): what a rule denotes does not depend
    // on how many bracketed parts stand next to each other (counts around 32, 64 and 256)
    {
        let counts: Vec<usize> = if tier == Tier::Quick { vec![1, 8, 31, 32, 33, 64, 65, 100] } else { vec![1, 2, 8, 15, 16, 17, 31, 32, 33, 63, 64, 65, 100, 127, 128, 129, 255, 256, 257] };
        for n in counts {
            for kind in ["plain", "group", "optional", "closure", "mixed"] {
                let parts: Vec<Expr> = (0..n)
                    .map(|i| {
                        let l = lit("k");
                        match (kind, i % 3) {
                            ("plain", _) => l,
                            ("group", _) | ("mixed", 0) => Expr::Group(Box::new(l)),
                            ("optional", _) | ("mixed", 1) => opt(l),
                            _ => star(l),
                        }
                    })
                    .collect();
                let mut v = parts;
                v.push(Expr::Eoi);
                let g = root_grammar(vec![Directive::Export, Directive::NoSkipWs], seq(v), &[]);
                let inputs = InputSpec::List(vec!["k".repeat(n), "k".repeat(n.saturating_sub(1)), "k".repeat(n + 1), String::new()]);
                add_if_wf(&mut b, "many-parts", g, &inputs);
            }
        }
    }
    // box markers on some mentions of a field only (any marked mention boxes the field), in every order
    {
        let leaves = c02_leaves();
        let inputs = InputSpec::Strings { alphabet: vec!['a', 'b', 'c'], max_len: 4 };
        let mention = |boxed: bool, name: &str, rule: &str| if boxed { bfield(name, rule) } else { field(name, rule) };
        for m1 in [false, true] {
            for m2 in [false, true] {
                for m3 in [false, true] {
                    let bodies = vec![
                        choice(vec![seq(vec![lit("c"), mention(m1, "v", "X")]), mention(m2, "v", "X")]),
                        seq(vec![mention(m1, "v", "X"), lit("a"), mention(m2, "v", "X"), opt(mention(m3, "v", "X"))]),
                        choice(vec![seq(vec![lit("a"), mention(m1, "v", "X")]), mention(m2, "v", "Y"), seq(vec![lit("c"), mention(m3, "v", "X")])]),
                        choice(vec![seq(vec![lit("a"), if m1 { bover("X") } else { over("X") }]), if m2 { bover("X") } else { over("X") }]),
                        seq(vec![star(mention(m1, "v", "X")), lit("a"), opt(mention(m2, "v", "X"))]),
                    ];
                    for body in bodies {
                        let mut l = vec![Rule::normal("R", vec![Directive::NoSkipWs], body)];
                        l.extend(leaves.iter().cloned());
                        let g = root_grammar(vec![Directive::Export, Directive::NoSkipWs], seq(vec![field("r", "R"), opt(field("t", "R"))]), &l);
                        add_if_wf(&mut b, "box-markers", g, &inputs);
                    }
                }
            }
        }
    }
    let pool = ['\r', '\n', '\t', 'b', '\\', '\''];
    let inputs = InputSpec::Strings { alphabet: vec!['\r', '\n', '\t', 'b', '\\', '\''], max_len: 3 };
    let spell = |c: char, escaped: bool| -> LitChar {
        if escaped {
            LitChar::canon(c)
        } else if c == '\\' {
            LitChar::canon(c)
        } else {
            LitChar { c, sp: Spelling::Raw }
        }
    };
    for a in pool {
        for c in pool {
            for (ea, ec) in [(true, true), (false, false), (true, false)] {
                for dq in [false, true] {
                    for insensitive in [false, true] {
                        let e = Expr::Lit { chars: vec![spell(a, ea), spell(c, ec)], insensitive, dq };
                        let g = root_grammar(vec![Directive::Export, Directive::Position, Directive::NoSkipWs], seq(vec![e, opt(rref("char"))]), &[]);
                        add_if_wf(&mut b, "escapes/pairs", g, &inputs);
                    }
                }
            }
            // hex / unicode spellings next to each other
            let e = Expr::Lit {
                chars: vec![LitChar { c: a, sp: Spelling::Hex { upper: true } }, LitChar { c, sp: Spelling::Brace { digits: 2, upper: false } }, LitChar { c: 'b', sp: Spelling::U4 { upper: false } }],
                insensitive: false,
                dq: true,
            };
            let g = root_grammar(vec![Directive::Export, Directive::Position, Directive::NoSkipWs], seq(vec![e, opt(rref("char"))]), &[]);
            add_if_wf(&mut b, "escapes/pairs", g, &inputs);
        }
    }
    b.cases
}

/// every documented spelling of a character
pub fn spellings_for(c: char) -> Vec<Spelling> {
    let v = c as u32;
    let mut out = Vec::new();
    if !matches!(c, '\\' | '\n' | '\r') {
        out.push(Spelling::Raw);
    }
    if matches!(c, '\n' | '\r' | '\t' | '\\' | '\'' | '"') {
        out.push(Spelling::Simple);
    }
    if v <= 0xff {
        out.push(Spelling::Hex { upper: false });
        out.push(Spelling::Hex { upper: true });
    }
    if v <= 0xffff {
        out.push(Spelling::U4 { upper: false });
        out.push(Spelling::U4 { upper: true });
    }
    out.push(Spelling::U8 { upper: false });
    out.push(Spelling::U8 { upper: true });
    let min_digits = format!("{:x}", v).len() as u8;
    for d in min_digits..=6 {
        out.push(Spelling::Brace { digits: d, upper: false });
    }
    out.push(Spelling::Brace { digits: min_digits, upper: true });
    out.dedup();
    out
}

// ------------------------------------------------------------------------- directive matrix (shared)

/// Small grammars Root -> A -> B in which A and B carry every subset of the directives that interact through
/// the parse state (position, memoize, no_skip_ws, a pure refusing check; B also as @string): pairs and
/// triples of directives on one rule are exactly what conditional "optimisations" key on.
pub fn directive_matrix(b: &mut Builder, family: &str, tier: Tier) {
    let roots = vec![
        seq(vec![field("a", "A"), opt(field("b", "B")), opt(lit("c"))]),
        choice(vec![seq(vec![field("a", "A"), lit("c")]), seq(vec![star(field("b", "B")), opt(field("a", "A"))])]),
        seq(vec![star(seq(vec![field("a", "A"), opt(lit("c"))])), Expr::Eoi]),
    ];
    let a_body = seq(vec![field("x", "B"), opt(seq(vec![lit("c"), field("y", "B")]))]);
    let b_body = seq(vec![lit("b"), opt(lit("b"))]);
    let inputs = InputSpec::Strings { alphabet: vec!['b', 'c', ' '], max_len: if tier == Tier::Quick { 4 } else { 5 } };
    let chk = Directive::Check(vec!["hrt".into(), "user".into(), "chk_nob2".into()]);
    for (ri, r) in roots.iter().enumerate() {
        for amask in 0u32..16 {
            for bmask in 0u32..16 {
                // quick: every pair of directive sets that differ from the default in at most 3 places
                if tier == Tier::Quick && (amask.count_ones() + bmask.count_ones()) > 3 {
                    continue;
                }
                let mut ad = Vec::new();
                if amask & 1 != 0 {
                    ad.push(Directive::Position);
                }
                if amask & 2 != 0 {
                    ad.push(Directive::Memoize);
                }
                if amask & 4 != 0 {
                    ad.push(Directive::NoSkipWs);
                }
                if amask & 8 != 0 {
                    ad.push(chk.clone());
                }
                let mut bd = Vec::new();
                if bmask & 1 != 0 {
                    bd.push(Directive::Position);
                }
                if bmask & 2 != 0 {
                    bd.push(Directive::Memoize);
                }
                if bmask & 4 != 0 {
                    bd.push(Directive::NoSkipWs);
                }
                if bmask & 8 != 0 {
                    bd.push(Directive::String);
                }
                for root_noskip in [false, true] {
                    let mut rd = vec![Directive::Export, Directive::Position];
                    if root_noskip {
                        rd.push(Directive::NoSkipWs);
                    }
                    let g = Grammar {
                        rules: vec![
                            Rule::normal("Root", rd, r.clone()),
                            Rule::normal("A", ad.clone(), a_body.clone()),
                            Rule::normal("B", bd.clone(), b_body.clone()),
                        ],
                    };
                    if wf::well_formed(&g) {
                        b.add(&format!("{family}/root{ri}"), g, inputs.clone());
                    }
                }
            }
        }
    }
}

// ------------------------------------------------------------------------------------------- C02

pub fn c02_leaves() -> Vec<Rule> {
    vec![
        Rule::normal("X", vec![Directive::String, Directive::NoSkipWs], choice(vec![lit("b"), seq(vec![lit("c"), lit("b")])])),
        Rule::normal("Y", vec![Directive::String, Directive::NoSkipWs], seq(vec![lit("b"), opt(lit("c"))])),
        Rule::normal("Inc", vec![], seq(vec![field("f", "X"), opt(seq(vec![lit("c"), field("g", "Y")]))])),
        Rule::normal("N", vec![], seq(vec![field("f", "X"), opt(field("h", "Y"))])),
        // plain rules that can match the empty string: their presence is visible in the tree (Some(Q) vs None)
        Rule::normal("Q", vec![], opt(lit("c"))),
        Rule::normal("QL", vec![], star(field("i", "X"))),
    ]
}

/// field bundles: every result shape a template distinguishes
pub fn bundles() -> Vec<(&'static str, Expr)> {
    vec![
        ("nofield", rref("X")),
        ("one", field("f", "X")),
        ("two", seq(vec![field("f", "X"), field("g", "Y")])),
        ("twice", seq(vec![field("f", "X"), field("f", "X")])),
        ("twotypes", choice(vec![seq(vec![lit("c"), field("f", "Y")]), field("f", "X")])),
        ("boxed", bfield("f", "X")),
        ("include", inc("Inc")),
        ("node", field("n", "N")),
        ("char", field("c", "char")),
        // the box marker on the built-in character rule
        ("boxed-char", bfield("c", "char")),
        ("optpair", opt(seq(vec![field("f", "X"), field("g", "Y")]))),
        ("altpair", choice(vec![field("f", "X"), field("g", "Y")])),
        ("nullable-pair", opt(seq(vec![field("q", "Q"), field("r", "QL")]))),
        ("nullable-nested", opt(opt(field("q", "Q")))),
        ("nullable-closure-of-opt", seq(vec![opt(seq(vec![field("q", "Q"), field("f", "X")])), opt(seq(vec![field("r", "QL"), field("q", "Q")]))])),
        // an empty alternative that is not the last one: ordered choice stops there
        ("empty-middle", choice(vec![seq(vec![lit("c"), field("f", "X")]), seq(vec![]), field("g", "Y")])),
        ("empty-middle-same-field", choice(vec![seq(vec![lit("c"), field("f", "X")]), seq(vec![]), field("f", "X")])),
        ("empty-first", choice(vec![seq(vec![]), field("f", "X")])),
    ]
}

pub fn c02(tier: Tier) -> Vec<Case> {
    let mut b = Builder::new();
    let leaves = c02_leaves();
    let full_atoms = vec![field("f", "X"), field("g", "X"), field("f", "Y"), bfield("f", "X"), field("c", "char"), rref("X"), lit("b"), inc("Inc"), field("q", "Q")];
    let small_atoms = vec![field("f", "X"), field("g", "Y"), field("f", "Y"), lit("b"), field("q", "Q")];
    let over_atoms = vec![over("X"), over("Y"), bover("X"), lit("b"), over("char"), bover("char")];
    let (k_full, k_small, k_over, k_ctx, len) = match tier {
        Tier::Quick => (3, 4, 3, 3, 4),
        Tier::Thorough => (4, 5, 4, 4, 5),
    };
    let inputs = InputSpec::Strings { alphabet: vec!['a', 'b', 'c'], max_len: len };
    let mut all: Vec<Expr> = trees(&full_atoms, &ALL_OPS, k_full);
    for t in trees_by_size(&small_atoms, &NO_LOOKAHEAD_OPS, k_small).into_iter().skip(k_full) {
        all.extend(t);
    }
    for e in &all {
        let g = root_grammar(vec![Directive::Export, Directive::NoSkipWs], e.clone(), &leaves);
        add_if_wf(&mut b, "fields", g, &inputs);
    }
    // long repetitions: many matches collected into one field
    {
        let mut inputs: Vec<String> = Vec::new();
        for n in long_counts(Tier::Quick) {
            inputs.push("b".repeat(n));
            inputs.push(format!("{}c", "cb".repeat(n)));
            inputs.push(format!("{}a", "bc".repeat(n)));
        }
        let spec = InputSpec::List(inputs);
        for e in [
            star(field("f", "X")),
            seq(vec![star(choice(vec![field("f", "Y"), seq(vec![lit("c"), field("g", "X")])])), opt(field("c", "char"))]),
            star(seq(vec![field("f", "X"), opt(field("g", "Y"))])),
            plus(field("n", "N")),
            seq(vec![star(field("c", "char")), Expr::Eoi]),
        ] {
            let g = root_grammar(vec![Directive::Export, Directive::NoSkipWs], e, &leaves);
            add_if_wf(&mut b, "long-inputs", g, &spec);
        }
    }
    // closures whose iterations contribute a varying number of matches to one field
    {
        let spec = InputSpec::Strings { alphabet: vec!['a', 'b', 'c'], max_len: if tier == Tier::Quick { 6 } else { 7 } };
        for e in [
            star(seq(vec![star(field("f", "X")), lit("a")])),
            star(seq(vec![field("f", "X"), opt(field("f", "X")), lit("a")])),
            star(choice(vec![seq(vec![lit("a"), field("f", "Y"), field("f", "Y")]), field("f", "X")])),
            star(seq(vec![plus(choice(vec![field("f", "X"), field("g", "Y")])), lit("a")])),
            plus(seq(vec![inc("Inc"), star(field("f", "X")), lit("a")])),
        ] {
            let g = root_grammar(vec![Directive::Export, Directive::NoSkipWs], e, &leaves);
            add_if_wf(&mut b, "varying-counts", g, &spec);
        }
    }
    directive_matrix(&mut b, "directive-matrix", tier);
    // @string rules of every small body shape (also a lone literal, case-insensitive literals, ranges), with and without
    // @no_skip_ws / @position, from skipping and non-skipping roots: the value is exactly the consumed slice
    {
        let atoms = vec![lit("b"), ilit("b"), ilit("bc"), range('b', 'c')];
        let spec = InputSpec::Strings { alphabet: vec!['b', 'B', 'c', 'C', ' '], max_len: if tier == Tier::Quick { 4 } else { 5 } };
        for body in trees(&atoms, &NO_LOOKAHEAD_OPS, if tier == Tier::Quick { 2 } else { 3 }) {
            for s_noskip in [true, false] {
                for s_pos in [false, true] {
                    for root_noskip in [true, false] {
                        let mut sd = vec![Directive::String];
                        if s_noskip {
                            sd.push(Directive::NoSkipWs);
                        }
                        if s_pos {
                            sd.push(Directive::Position);
                        }
                        let rules = vec![Rule::normal("S", sd, body.clone())];
                        let mut rd = vec![Directive::Export];
                        if root_noskip {
                            rd.push(Directive::NoSkipWs);
                        }
                        let g = root_grammar(rd, seq(vec![field("s", "S"), opt(field("t", "S"))]), &rules);
                        add_if_wf(&mut b, "string-bodies", g, &spec);
                    }
                }
            }
        }
    }
    // @char rules that deliver the character into the tree (fields, overrides, closures): twin-case ranges, single
    // characters, nested classes; the value is the character that was consumed
    {
        let lc = |c: char| LitChar::canon(c);
        let spec = InputSpec::Strings { alphabet: vec!['a', 'b', 'B', 'C', 'c', 'é'], max_len: if tier == Tier::Quick { 4 } else { 5 } };
        let classes: Vec<Vec<CharPart>> = vec![
            vec![CharPart::Range(lc('a'), lc('c')), CharPart::Range(lc('A'), lc('C'))],
            vec![CharPart::Range(lc('A'), lc('C')), CharPart::Range(lc('a'), lc('c'))],
            vec![CharPart::Char(lc('b')), CharPart::Char(lc('B'))],
            vec![CharPart::Range(lc('a'), lc('b')), CharPart::Ident("U".into())],
            vec![CharPart::Range(lc('A'), lc('é'))],
        ];
        let u = Rule::chr("U", vec![CharPart::Range(lc('A'), lc('B')), CharPart::Char(lc('é'))]);
        for cl in classes {
            for body in [
                seq(vec![field("h", "H"), star(field("t", "H"))]),
                seq(vec![star(field("t", "H")), opt(field("c", "char"))]),
                seq(vec![field("r", "R"), opt(field("h", "H"))]),
                choice(vec![seq(vec![field("h", "H"), field("g", "H")]), field("h", "U")]),
            ] {
                let rules = vec![Rule::chr("H", cl.clone()), u.clone(), Rule::normal("R", vec![Directive::NoSkipWs], choice(vec![over("H"), over("char")]))];
                let g = root_grammar(vec![Directive::Export, Directive::NoSkipWs], body, &rules);
                add_if_wf(&mut b, "char-values", g, &spec);
            }
        }
    }
    // fields whose names are Rust keywords (raw identifiers in the generated code), bound by several parts of a sequence
    {
        let spec = InputSpec::Strings { alphabet: vec!['a', 'b', 'c'], max_len: if tier == Tier::Quick { 5 } else { 6 } };
        for kw in ["type", "in", "mod", "match"] {
            for body in [
                seq(vec![field(kw, "X"), star(seq(vec![lit("a"), field(kw, "X")]))]),
                seq(vec![opt(seq(vec![field(kw, "X"), lit("a")])), field(kw, "X")]),
                seq(vec![field(kw, "X"), seq(vec![lit("a"), field(kw, "X"), field("g", "Y")]), opt(field(kw, "X"))]),
                seq(vec![field(kw, "X"), field("g", "Y"), field(kw, "Y")]),
                choice(vec![seq(vec![field(kw, "X"), lit("a"), field(kw, "X")]), field(kw, "Y")]),
            ] {
                let g = root_grammar(vec![Directive::Export, Directive::NoSkipWs], body, &leaves);
                add_if_wf(&mut b, "keyword-fields", g, &spec);
            }
        }
    }
    // override family: Root = r:R with R an override rule (plain overrides cannot be exported)
    for e in trees(&over_atoms, &NO_LOOKAHEAD_OPS, k_over) {
        let mut rules = vec![Rule::normal("R", vec![Directive::NoSkipWs], e.clone())];
        rules.extend(leaves.iter().cloned());
        let g = root_grammar(vec![Directive::Export, Directive::NoSkipWs], seq(vec![field("r", "R"), opt(field("t", "R"))]), &rules);
        add_if_wf(&mut b, "override", g, &inputs);
    }
    // contexts x bundles x tails
    let ctxs = contexts(&[lit("b"), lit("c")], &NO_LOOKAHEAD_OPS, k_ctx);
    let tails: Vec<Option<Expr>> = vec![None, Some(field("f", "X")), Some(field("g", "Y"))];
    let heads: Vec<Option<Expr>> = vec![None, Some(field("f", "X"))];
    for c in &ctxs {
        for (bn, bu) in bundles() {
            for t in &tails {
                for h in &heads {
                    let mut parts = Vec::new();
                    if let Some(h) = h {
                        parts.push(h.clone());
                    }
                    parts.push(fill(c, &bu));
                    if let Some(t) = t {
                        parts.push(t.clone());
                    }
                    let body = if parts.len() == 1 { parts.pop().unwrap() } else { seq(parts) };
                    let g = root_grammar(vec![Directive::Export, Directive::NoSkipWs], body, &leaves);
                    add_if_wf(&mut b, &format!("ctx/{bn}"), g, &inputs);
                }
            }
        }
    }
    // inputs above 1 MiB (and 2 MiB): a memoized rule is asked at a small offset and again 2^20 (+-1, 2^21) bytes later -
    // the tree must hold the match made at the later offset (table keys are offsets, however the table is organised)
    {
        let g = Grammar {
            rules: vec![
                Rule::normal(
                    "Root",
                    vec![Directive::Export, Directive::NoSkipWs],
                    seq(vec![field("first", "Item"), star(lit(".")), field("last", "Item"), star(choice(vec![lit("."), field("tail", "Word")])), Expr::Eoi]),
                ),
                Rule::normal("Item", vec![Directive::Memoize, Directive::NoSkipWs], field("name", "Word")),
                Rule::normal("Word", vec![Directive::String, Directive::NoSkipWs], plus(range('a', 'z'))),
            ],
        };
        let mut inputs: Vec<String> = Vec::new();
        let mib = 1usize << 20;
        let at: Vec<usize> = if tier == Tier::Quick { vec![mib] } else { vec![4096, 65536, mib - 1, mib, mib + 1, 2 * mib, 3 * mib + 4096] };
        for d in &at {
            // `abc` at offset 0, `xyz` exactly d bytes later
            let mut s = String::with_capacity(d + 16);
            s.push_str("abc");
            s.push_str(&".".repeat(d - 3));
            s.push_str("xyz.end");
            inputs.push(s);
        }
        b.add("memo-far-offsets", g, InputSpec::List(inputs));
    }
    b.cases
}

// ------------------------------------------------------------------------------------------- C04

pub fn c04(tier: Tier) -> Vec<Case> {
    let mut b = Builder::new();
    let lc = |c: char| LitChar::canon(c);
    let leaves = vec![
        Rule::chr(
            "D",
            vec![CharPart::Char(lc('é')), CharPart::Range(lc('a'), lc('k')), CharPart::Range(lc('€'), lc('😀')), CharPart::Ident("E".into())],
        ),
        Rule::chr("E", vec![CharPart::Char(lc('©'))]),
        Rule::normal("S", vec![Directive::String, Directive::NoSkipWs, Directive::Position], seq(vec![rref("char"), opt(lit("é"))])),
        Rule::ext("T", "hrt::user::tok2", None),
    ];
    let atoms = vec![
        lit("a"),
        lit("é"),
        lit("€"),
        lit("😀"),
        lit("aé"),
        lit("é€"),
        range('a', 'z'),
        range('a', 'é'),
        range('à', 'ë'),
        range('€', '😀'),
        range('\u{0}', '\u{7f}'),
        range('\u{80}', '\u{ff}'),
        ilit("a"),
        ilit("ab"),
        ilit("k"),
        ilit("ak"),
        ilit("ki"),
        rref("char"),
        field("c", "char"),
        field("d", "D"),
        field("s", "S"),
        field("t", "T"),
    ];
    // `range('k', 'a')`: bounds in descending order (accepted by the compiler, matches nothing)
    let small_atoms = vec![lit("é"), range('a', 'é'), ilit("ki"), field("c", "char"), field("s", "S"), range('k', 'a')];
    let (k_full, k_small, len) = match tier {
        Tier::Quick => (2, 3, 3),
        Tier::Thorough => (3, 4, 4),
    };
    // 香 = E9 A6 99 and 中 = E4 B8 AD: their lead bytes are the code points of é and ä
    // U+212A KELVIN SIGN lower-cases to k (3 bytes -> 1), U+0130 to i + U+0307 (2 bytes -> 3)
    let alphabet = vec!['a', 'k', 'K', 'i', 'é', 'è', '©', '€', '😀', ' ', '\u{212A}', '\u{130}', '香', '中'];
    let inputs = InputSpec::Strings { alphabet, max_len: len };
    let mut all: Vec<Expr> = trees(&atoms, &ALL_OPS, k_full);
    for t in trees_by_size(&small_atoms, &ALL_OPS, k_small).into_iter().skip(k_full) {
        all.extend(t);
    }
    for e in &all {
        for noskip in [true, false] {
            let mut dirs = vec![Directive::Export, Directive::Position];
            if noskip {
                dirs.push(Directive::NoSkipWs);
            }
            let g = root_grammar(dirs, e.clone(), &leaves);
            // multi-byte characters that Unicode (not peginator) calls white space, where the skipper looks
            let spaces = InputSpec::Strings { alphabet: vec!['a', 'é', ' ', '\u{85}', '\u{a0}', '\u{2003}', '\u{2028}', '\u{3000}', '\u{feff}', '\u{800}', '\u{e01}', '\u{fff}'], max_len: len.min(3) };
            let both = InputSpec::Multi(vec![inputs.clone(), spaces]);
            add_if_wf(&mut b, if noskip { "utf8/no_skip_ws" } else { "utf8/skip" }, g, &both);
        }
    }
    // @char classes made of every list of up to 2 (thorough 3) parts over literals and ranges whose bounds are ASCII,
    // non-ASCII, or one of each (1-, 2-, 3- and 4-byte upper bounds), matched a bounded number of times so that a cursor
    // left inside a multi-byte sequence is seen by the next part (`char`, a @string @position rule, `$`)
    {
        let parts: Vec<CharPart> = vec![
            CharPart::Char(lc('a')),
            CharPart::Char(lc('é')),
            CharPart::Range(lc('a'), lc('k')),
            CharPart::Range(lc('a'), lc('é')),
            CharPart::Range(lc(' '), lc('\u{d7ff}')),
            CharPart::Range(lc('i'), lc('\u{74a}')),
            CharPart::Range(lc('é'), lc('香')),
            CharPart::Range(lc('\u{0}'), lc('\u{10ffff}')),
        ];
        let maxn = if tier == Tier::Quick { 2 } else { 3 };
        let mut lists: Vec<Vec<CharPart>> = vec![vec![]];
        let mut all: Vec<Vec<CharPart>> = Vec::new();
        for _ in 0..maxn {
            let mut next = Vec::new();
            for l in &lists {
                for p in &parts {
                    let mut n = l.clone();
                    n.push(p.clone());
                    next.push(n);
                }
            }
            all.extend(next.iter().cloned());
            lists = next;
        }
        let cinputs = InputSpec::Strings { alphabet: vec!['a', 'k', 'é', '©', '€', '香', '😀', '\u{74a}', ' '], max_len: 3 };
        for l in all {
            let cls = Rule::chr("Cls", l);
            let s_rule = Rule::normal("S", vec![Directive::String, Directive::NoSkipWs, Directive::Position], seq(vec![rref("char"), opt(lit("é"))]));
            for root in [
                seq(vec![field("c", "Cls"), opt(field("s", "S")), opt(field("d", "Cls"))]),
                seq(vec![opt(field("c", "Cls")), opt(field("d", "char")), Expr::Eoi]),
            ] {
                let g = root_grammar(vec![Directive::Export, Directive::Position, Directive::NoSkipWs], root, &[cls.clone(), s_rule.clone()]);
                add_if_wf(&mut b, "utf8/classes", g, &cinputs);
            }
        }
    }
    // long multi-byte inputs
    {
        let mut linputs: Vec<String> = Vec::new();
        for n in long_counts(Tier::Quick) {
            linputs.push("é".repeat(n));
            linputs.push(format!("{}a", "€😀".repeat(n / 2)));
            linputs.push(format!("{}é", "a".repeat(n)));
            linputs.push(format!("{}\u{212A}", "k".repeat(n)));
        }
        // a multi-byte character at every byte offset from 40 to 70 (fixed-size windows, buffers)
        for pad in 40..=70usize {
            linputs.push(format!("{}é{}", "a".repeat(pad), "a".repeat(8)));
            linputs.push(format!("{}😀€", "k".repeat(pad)));
        }
        let spec = InputSpec::List(linputs);
        for e in [
            seq(vec![star(lit("é")), opt(field("c", "char"))]),
            seq(vec![star(range('a', 'k')), star(field("c", "char"))]),
            seq(vec![star(range('à', 'ë')), star(field("s", "S"))]),
            seq(vec![star(ilit("k")), opt(ilit("ki")), star(field("c", "char"))]),
            seq(vec![star(choice(vec![lit("€"), lit("😀"), range('a', 'é')])), Expr::Eoi]),
            star(field("t", "T")),
        ] {
            let g = root_grammar(vec![Directive::Export, Directive::Position, Directive::NoSkipWs], e, &leaves);
            if add_if_wf(&mut b, "utf8/long-inputs", g, &spec) {
                b.last().note = "traced-too".into();
            }
        }
    }
    // the guard itself: non-ASCII case-insensitive literals must be rejected by the compiler; if a changed
    // compiler accepts them, the generated parser is run and judged like every other one
    for l in ["é", "ä", "aé", "éa", "\u{e9}k", "ÿ", "Â"] {
        for e in [ilit(l), seq(vec![ilit(l), field("s", "S")]), star(ilit(l)), seq(vec![opt(ilit(l)), field("c", "char")])] {
            let g = root_grammar(vec![Directive::Export, Directive::Position, Directive::NoSkipWs], e, &leaves);
            if b.add("guard/non-ascii-insensitive", g, inputs.clone()) {
                b.last().note = "may-be-rejected".into();
            }
        }
    }
    b.cases
}

// ------------------------------------------------------------------------------------------- C08

/// choices whose alternatives are single tokens, some of which can match nothing; the end of the enclosing
/// rule is observed through @position / @string / a @no_skip_ws caller (shared by C08 and C09)
fn nullable_alternatives_family(b: &mut Builder, fam: &str, tier: Tier) {
    {
        let inputs = InputSpec::Strings { alphabet: vec!['b', 'c', ' ', 'k'], max_len: if tier == Tier::Quick { 4 } else { 5 } };
        let alts: Vec<Vec<Expr>> = vec![
            vec![lit("k"), lit("c"), lit("")],
            vec![opt(lit("k")), lit("c")],
            vec![lit("k"), seq(vec![])],
            vec![field("u", "U"), opt(lit("c"))],
            vec![lit(""), lit("k")],
            vec![range('k', 'k'), opt(range('c', 'c'))],
            vec![Expr::Eoi, lit("k")],
            vec![lit("k"), star(lit("c"))],
        ];
        for al in &alts {
            for num_kind in 0..3 {
                let num_dirs = match num_kind {
                    0 => vec![Directive::Position],
                    1 => vec![Directive::String],
                    _ => vec![],
                };
                let num = Rule::normal("Num", num_dirs, seq(vec![plus(lit("b")), choice(al.clone())]));
                let u = Rule::normal("U", vec![], lit("k"));
                for root_body in [seq(vec![field("n", "Num"), lit(" "), field("m", "Num"), Expr::Eoi]), seq(vec![field("n", "Num"), opt(field("m", "Num"))]), star(field("n", "Num"))] {
                    for root_noskip in [true, false] {
                        let mut dirs = vec![Directive::Export, Directive::Position];
                        if root_noskip {
                            dirs.push(Directive::NoSkipWs);
                        }
                        let g = root_grammar(dirs, root_body.clone(), &[num.clone(), u.clone()]);
                        add_if_wf(b, fam, g, &inputs);
                    }
                }
            }
        }
    }
}

pub fn c08(tier: Tier) -> Vec<Case> {
    let mut b = Builder::new();
    directive_matrix(&mut b, "ws/directive-matrix", tier);
    nullable_alternatives_family(&mut b, "ws/nullable-alternatives", tier);
    // two reachable includers of one rule with opposite skip modes and identical field lists, in both file orders
    {
        let inputs = InputSpec::Strings { alphabet: vec!['b', 'c', ' ', 'x'], max_len: if tier == Tier::Quick { 5 } else { 6 } };
        for inc_body in [seq(vec![lit("b"), lit("c")]), seq(vec![lit("b"), opt(field("g", "X"))]), seq(vec![field("g", "X"), lit("c")])] {
            for p_first in [true, false] {
                for root_noskip in [false, true] {
                    for root_body in [seq(vec![field("p", "P"), lit("x"), field("q", "Q")]), seq(vec![field("q", "Q"), lit("x"), field("p", "P")]), choice(vec![seq(vec![field("p", "P"), lit("x")]), field("q", "Q")])] {
                        let p_rule = Rule::normal("P", vec![Directive::Position], inc("Inc"));
                        let q_rule = Rule::normal("Q", vec![Directive::Position, Directive::NoSkipWs], inc("Inc"));
                        let mut rules = if p_first { vec![p_rule, q_rule] } else { vec![q_rule, p_rule] };
                        rules.push(Rule::normal("Inc", vec![], inc_body.clone()));
                        rules.push(Rule::normal("X", vec![Directive::Position], seq(vec![lit("c"), opt(lit("c"))])));
                        let mut dirs = vec![Directive::Export, Directive::Position];
                        if root_noskip {
                            dirs.push(Directive::NoSkipWs);
                        }
                        let g = root_grammar(dirs, root_body, &rules);
                        add_if_wf(&mut b, "ws/two-includers", g, &inputs);
                    }
                }
            }
        }
    }
    // long whitespace runs between and around two tokens, with the built-in skipper
    {
        let mut inputs: Vec<String> = Vec::new();
        let runs: Vec<String> = (0..=18usize).map(|n| " ".repeat(n)).chain([" \t\n\r\u{c} ".repeat(3), "\t".repeat(9), " ".repeat(64), " ".repeat(257)]).collect();
        for a in &runs {
            for m in &runs {
                inputs.push(format!("{a}b{m}c"));
            }
            inputs.push(format!("{a}b"));
            inputs.push(format!("b{a}c "));
            inputs.push(format!("{a}b{a}\u{b}c"));
        }
        let spec = InputSpec::List(inputs);
        for e in [seq(vec![lit("b"), lit("c"), Expr::Eoi]), seq(vec![lit("b"), opt(lit("c"))]), seq(vec![field("c", "char"), field("d", "char")]), seq(vec![range('b', 'c'), star(range('b', 'c'))])] {
            for noskip in [false, true] {
                let mut dirs = vec![Directive::Export, Directive::Position];
                if noskip {
                    dirs.push(Directive::NoSkipWs);
                }
                let g = root_grammar(dirs, e.clone(), &[]);
                add_if_wf(&mut b, "ws/long-runs", g, &spec);
            }
        }
    }
    let (k, k_small, len) = match tier {
        Tier::Quick => (2, 3, 4),
        Tier::Thorough => (3, 4, 5),
    };
    let atoms = vec![
        lit("b"),
        range('b', 'c'),
        Expr::Eoi,
        rref("X"),
        field("f", "X"),
        field("c", "char"),
        field("s", "S"),
        inc("Inc"),
        rref("Whitespace"),
        field("v", "V"),
        field("t", "T"),
        field("i", "Item"),
        lit(" b"),
        lit("\t"),
        lit("_c"),
    ];
    let small_atoms = vec![lit("b"), field("f", "X"), field("c", "char"), inc("Inc"), field("i", "Item"), lit(" b")];
    let mut all: Vec<Expr> = trees(&atoms, &ALL_OPS, k);
    for t in trees_by_size(&small_atoms, &NO_LOOKAHEAD_OPS, k_small).into_iter().skip(k) {
        all.extend(t);
    }
    // builtin whitespace: near misses in the alphabet
    let inputs_builtin = InputSpec::Strings { alphabet: vec!['b', 'c', ' ', '\t', '\u{0B}', '\u{A0}'], max_len: len };
    let inputs_user = InputSpec::Strings { alphabet: vec!['b', 'c', ' ', '_', '#', '\n'], max_len: len };
    for e in &all {
        for root_noskip in [false, true] {
            for leaf_noskip in [false, true] {
                for user_ws in [0, 1, 2, 3, 4] {
                    let nd = |on: bool| if on { vec![Directive::NoSkipWs] } else { vec![] };
                    let mut leaves = vec![
                        // struct leaf with position, two tokens
                        Rule::normal("X", [vec![Directive::Position], nd(leaf_noskip)].concat(), seq(vec![lit("b"), opt(lit("c"))])),
                        // @string leaf: shows exactly which bytes it consumed
                        Rule::normal("S", [vec![Directive::String], nd(leaf_noskip)].concat(), seq(vec![lit("b"), opt(lit("c"))])),
                        // included body carries the opposite flag of the root: must have no effect
                        Rule::normal("Inc", nd(!root_noskip), seq(vec![field("g", "X"), opt(lit("c"))])),
                        // override leaf
                        Rule::normal("V", nd(leaf_noskip), seq(vec![lit("c"), over("S")])),
                        // plain rules (no @position / @string): T can match the empty string, Item ends with it
                        Rule::normal("T", nd(leaf_noskip), opt(lit("b"))),
                        Rule::normal("Item", nd(leaf_noskip), seq(vec![lit("c"), field("t", "T")])),
                    ];
                    if user_ws == 2 {
                        // a Whitespace rule that is not idempotent: skips at most one filler
                        leaves.push(Rule::normal("Whitespace", vec![Directive::NoSkipWs], opt(lit("_"))));
                    }
                    if user_ws == 3 {
                        // Whitespace as a @char rule: exactly one filler character is required before every token
                        leaves.push(Rule::chr("Whitespace", vec![CharPart::Char(LitChar::canon('_'))]));
                    }
                    if user_ws == 4 {
                        // Whitespace as an @extern rule (skips underscores and NBSP)
                        leaves.push(Rule::ext("Whitespace", "hrt::user::ws_ext", Some("hrt::user::U")));
                    }
                    if user_ws == 1 {
                        leaves.push(Rule::normal(
                            "Whitespace",
                            vec![Directive::NoSkipWs],
                            star(choice(vec![lit("_"), rref("Comment")])),
                        ));
                        leaves.push(Rule::normal(
                            "Comment",
                            vec![Directive::NoSkipWs],
                            seq(vec![lit("#"), star(seq(vec![not(lit("\n")), rref("char")])), lit("\n")]),
                        ));
                    }
                    let mut dirs = vec![Directive::Export, Directive::Position];
                    if root_noskip {
                        dirs.push(Directive::NoSkipWs);
                    }
                    let g = root_grammar(dirs, e.clone(), &leaves);
                    let fam = format!(
                        "ws/root_{}/leaf_{}/{}",
                        if root_noskip { "noskip" } else { "skip" },
                        if leaf_noskip { "noskip" } else { "skip" },
                        ["builtin", "user", "user-once", "user-char-rule", "user-extern-rule"][user_ws]
                    );
                    add_if_wf(&mut b, &fam, g, if user_ws > 0 { &inputs_user } else { &inputs_builtin });
                }
            }
        }
    }
    b.cases
}

// ------------------------------------------------------------------------------------------- C09

pub fn c09(tier: Tier) -> Vec<Case> {
    let mut b = Builder::new();
    directive_matrix(&mut b, "pos/directive-matrix", tier);
    nullable_alternatives_family(&mut b, "pos/nullable-alternatives", tier);
    // positions at large offsets
    {
        let mut inputs: Vec<String> = Vec::new();
        for n in long_counts(tier) {
            inputs.push(format!("{}c", "b".repeat(n)));
            inputs.push(format!("{}b", "é ".repeat(n)));
            inputs.push(format!("{}bc", " ".repeat(n)));
        }
        let spec = InputSpec::List(inputs);
        for e in [
            seq(vec![star(field("f", "X")), opt(field("s", "S"))]),
            seq(vec![star(choice(vec![field("s", "S"), field("f", "X")])), Expr::Eoi]),
            seq(vec![star(lit("é")), star(field("f", "X")), opt(field("n", "N"))]),
        ] {
            for memo in [false, true] {
                let p = |extra: Vec<Directive>| {
                    let mut v = vec![Directive::Position];
                    v.extend(extra);
                    if memo {
                        v.push(Directive::Memoize);
                    }
                    v
                };
                let leaves = vec![
                    Rule::normal("X", p(vec![]), seq(vec![lit("b"), opt(lit("c"))])),
                    Rule::normal("S", p(vec![Directive::String]), seq(vec![lit("é"), opt(lit("b"))])),
                    Rule::normal("N", p(vec![]), seq(vec![lit("c"), field("x", "X"), opt(field("t", "S"))])),
                ];
                let g = root_grammar(vec![Directive::Export, Directive::Position], e.clone(), &leaves);
                add_if_wf(&mut b, "pos/long-inputs", g, &spec);
            }
        }
    }
    let (k, len) = match tier {
        Tier::Quick => (3, 4),
        Tier::Thorough => (4, 5),
    };
    let atoms = vec![field("f", "X"), field("s", "S"), field("e", "E"), field("n", "N"), lit("b"), lit("é"), field("t", "T"), field("o", "O"), field("so", "SO"), rref("char"), not(lit("c")), and(lit("b"))];
    // U+FEFF (byte order mark, three bytes) may stand anywhere, also in front: it is an ordinary character
    let inputs = InputSpec::Multi(vec![
        InputSpec::Strings { alphabet: vec!['b', 'c', 'é', ' '], max_len: len },
        InputSpec::Strings { alphabet: vec!['b', 'c', '\u{feff}', ' '], max_len: len.min(3) },
    ]);
    let all = trees(&atoms, &NO_LOOKAHEAD_OPS, k);
    // every subset of {X, S, N(+its child), Root} marked @position; E is an enum override of @position rules
    for e in &all {
        for mask in subsets(4) {
            for root_noskip in [false, true] {
                let memo = mask & 8 != 0;
                let p = |bit: u32| {
                    let mut v = if mask & (1 << bit) != 0 { vec![Directive::Position] } else { vec![] };
                    if memo {
                        v.push(Directive::Memoize);
                    }
                    v
                };
                let leaves = vec![
                    Rule::normal("X", p(0), seq(vec![lit("b"), opt(lit("c"))])),
                    Rule::normal("S", [vec![Directive::String], p(1)].concat(), seq(vec![lit("é"), opt(lit("b"))])),
                    Rule::normal("N", p(2), seq(vec![lit("c"), field("x", "X"), opt(field("t", "S"))])),
                    Rule::normal("E", vec![Directive::Position], choice(vec![over("P1"), over("P2")])),
                    Rule::normal("P1", vec![Directive::Position], seq(vec![lit("c"), lit("c")])),
                    Rule::normal("P2", vec![Directive::Position, Directive::Memoize], seq(vec![lit("c"), opt(lit("é"))])),
                    Rule::ext("T", "hrt::user::tok2", None),
                    // rules that can match nothing: their range must be empty then
                    Rule::normal("O", p(0), opt(lit("c"))),
                    Rule::normal("SO", [vec![Directive::String], p(1)].concat(), star(lit("é"))),
                ];
                let mut dirs = vec![Directive::Export, Directive::Position];
                if root_noskip {
                    dirs.push(Directive::NoSkipWs);
                }
                if memo {
                    dirs.push(Directive::Memoize);
                }
                let g = root_grammar(dirs, e.clone(), &leaves);
                add_if_wf(&mut b, &format!("pos/mask{mask}/{}", if root_noskip { "noskip" } else { "skip" }), g, &inputs);
            }
        }
    }
    b.cases
}
