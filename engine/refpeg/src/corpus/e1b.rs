//! Corpora for C05, C06, C07, C10, C13, C14, C19, C20.

use super::*;

pub fn c05(_tier: Tier) -> Vec<Case> { Vec::new() }
pub fn c06(_tier: Tier) -> Vec<Case> { Vec::new() }
pub fn c07(_tier: Tier) -> Vec<Case> { Vec::new() }
pub fn c10(_tier: Tier) -> Vec<Case> { Vec::new() }
pub fn c13(_tier: Tier) -> Vec<Case> { Vec::new() }
pub fn c14(_tier: Tier) -> Vec<Case> { Vec::new() }
pub fn c19(_tier: Tier) -> Vec<Case> { Vec::new() }
pub fn c20(_tier: Tier) -> Vec<Case> { Vec::new() }
