//! Corpora for C05, C06, C07, C10, C13, C14, C19, C20.

use super::e1::{prune, root_grammar};
use super::*;
use crate::wf;

fn dirs(noskip: bool, extra: &[Directive]) -> Vec<Directive> {
    let mut d: Vec<Directive> = extra.to_vec();
    if noskip {
        d.push(Directive::NoSkipWs);
    }
    d
}

// ------------------------------------------------------------------------------------ C05 / C06

/// Base grammars in which rules are reached several times at one offset through different contexts.
/// Returns (grammar without any @memoize, names of the rules that may be memoized).
pub fn memo_bases(tier: Tier) -> Vec<(Grammar, Vec<String>)> {
    let roots: Vec<Expr> = vec![
        // same rule, same offset, three continuations
        choice(vec![seq(vec![field("a", "A"), lit("x")]), seq(vec![field("a", "A"), lit("c")]), seq(vec![field("b", "B"), field("a", "A")])]),
        // closure retrying, then another caller at the offset where the closure stopped
        seq(vec![star(seq(vec![field("a", "A"), lit("x")])), opt(field("b", "B")), opt(field("a", "A"))]),
        // lookahead, then the real match
        choice(vec![seq(vec![and(rref("A")), field("a", "A"), lit("x")]), seq(vec![not(seq(vec![rref("A"), lit("x")])), field("a", "A")]), field("b", "B")]),
        // nested callers: B is reached from Root and from A
        choice(vec![seq(vec![field("b", "B"), lit("x")]), seq(vec![field("a", "A"), opt(field("b", "B"))]), star(field("b", "B"))]),
        // a failed attempt, then an unrelated alternative that fails further to the right, then the same attempt again
        choice(vec![seq(vec![field("a", "A"), lit("x")]), seq(vec![lit("b"), lit("b"), lit("b"), lit("c")]), seq(vec![field("a", "A"), lit("c")]), seq(vec![lit("b"), lit("c"), lit("c")]), field("b", "B")]),
    ];
    let a_atoms = vec![lit("b"), lit("c"), field("b", "B"), rref("B")];
    let b_atoms = vec![lit("b"), lit("c"), lit("bc")];
    let (a_bodies, b_bodies): (Vec<Expr>, Vec<Expr>) = match tier {
        Tier::Quick => (
            vec![
                field("b", "B"),
                seq(vec![field("b", "B"), lit("c")]),
                seq(vec![lit("b"), opt(field("b", "B"))]),
                choice(vec![seq(vec![rref("B"), lit("c")]), field("b", "B")]),
                plus(field("b", "B")),
                seq(vec![not(lit("c")), field("b", "B"), opt(lit("b"))]),
            ],
            vec![lit("b"), seq(vec![lit("b"), opt(lit("c"))]), choice(vec![lit("bc"), lit("b")]), plus(lit("b")), choice(vec![lit("c"), seq(vec![lit("b"), lit("b")])])],
        ),
        Tier::Thorough => (trees(&a_atoms, &ALL_OPS, 3), trees(&b_atoms, &NO_LOOKAHEAD_OPS, 2)),
    };
    let mut out = Vec::new();
    let mut seen = std::collections::BTreeSet::new();
    for r in &roots {
        for a in &a_bodies {
            for b in &b_bodies {
                let g = Grammar {
                    rules: vec![
                        Rule::normal("Root", vec![Directive::Export, Directive::NoSkipWs, Directive::Position], r.clone()),
                        Rule::normal("A", vec![Directive::NoSkipWs, Directive::Position], a.clone()),
                        Rule::normal("B", vec![Directive::NoSkipWs, Directive::String], b.clone()),
                    ],
                };
                if !wf::well_formed(&g) {
                    continue;
                }
                if !seen.insert(crate::print::grammar_text(&g)) {
                    continue;
                }
                out.push((g, vec!["Root".to_string(), "A".to_string(), "B".to_string()]));
            }
        }
    }
    out
}

/// The roots of `memo_bases` over rules that can match the empty string (optional, closure, empty alternative):
/// an evaluation that ends in an empty match is an evaluation like any other.
pub fn memo_bases_nullable() -> Vec<(Grammar, Vec<String>)> {
    let roots: Vec<Expr> = vec![
        choice(vec![seq(vec![field("a", "A"), lit("x")]), seq(vec![field("a", "A"), lit("c")]), seq(vec![field("b", "B"), field("a", "A")])]),
        choice(vec![seq(vec![and(rref("A")), field("a", "A"), lit("x")]), seq(vec![field("a", "A"), field("b", "B"), lit("c")]), seq(vec![field("b", "B"), lit("x")]), field("b", "B")]),
        seq(vec![star(seq(vec![field("a", "A"), lit("x")])), opt(field("b", "B")), opt(field("a", "A")), opt(lit("c"))]),
    ];
    let a_bodies = vec![
        opt(field("b", "B")),
        opt(seq(vec![field("b", "B"), lit("c")])),
        choice(vec![seq(vec![field("b", "B"), lit("c")]), seq(vec![])]),
        seq(vec![opt(lit("c")), opt(field("b", "B"))]),
        seq(vec![field("b", "B"), field("b", "B")]),
    ];
    let b_bodies = vec![lit("b"), opt(lit("b")), star(lit("b")), choice(vec![lit("bc"), seq(vec![])]), seq(vec![opt(lit("b")), opt(lit("c"))])];
    let mut out = Vec::new();
    for r in &roots {
        for a in &a_bodies {
            for b in &b_bodies {
                let g = Grammar {
                    rules: vec![
                        Rule::normal("Root", vec![Directive::Export, Directive::NoSkipWs, Directive::Position], r.clone()),
                        Rule::normal("A", vec![Directive::NoSkipWs, Directive::Position], a.clone()),
                        Rule::normal("B", vec![Directive::NoSkipWs, Directive::String], b.clone()),
                    ],
                };
                if wf::well_formed(&g) {
                    out.push((g, vec!["Root".to_string(), "A".to_string(), "B".to_string()]));
                }
            }
        }
    }
    out
}

pub fn with_memo(g: &Grammar, names: &[String], mask: u32) -> Grammar {
    let mut g2 = g.clone();
    for (i, n) in names.iter().enumerate() {
        if mask & (1 << i) != 0 {
            if let Some(r) = g2.rules.iter_mut().find(|r| &r.name == n) {
                r.directives.insert(0, Directive::Memoize);
            }
        }
    }
    g2
}

fn memo_inputs(tier: Tier) -> InputSpec {
    InputSpec::Strings { alphabet: vec!['b', 'c', 'x'], max_len: if tier == Tier::Quick { 4 } else { 5 } }
}

/// the same family with every assignment of skipping / @no_skip_ws to (Root, A, B): a memoized rule is
/// then reached from skipping and non-skipping callers at one raw offset with whitespace in between
pub fn memo_bases_mixed_skip(tier: Tier) -> Vec<(Grammar, Vec<String>)> {
    let all = memo_bases(Tier::Quick);
    let step = if tier == Tier::Quick { 9 } else { 2 };
    let mut out = Vec::new();
    for (g, names) in all.into_iter().step_by(step) {
        for skipmask in 1u32..8 {
            let mut g2 = g.clone();
            for (i, n) in ["Root", "A", "B"].iter().enumerate() {
                if skipmask & (1 << i) != 0 {
                    if let Some(r) = g2.rules.iter_mut().find(|r| &r.name == n) {
                        r.directives.retain(|d| *d != Directive::NoSkipWs);
                    }
                }
            }
            out.push((g2, names.clone()));
        }
    }
    out
}

fn memo_inputs_ws(tier: Tier) -> InputSpec {
    InputSpec::Strings { alphabet: vec!['b', 'c', 'x', ' '], max_len: if tier == Tier::Quick { 4 } else { 5 } }
}

pub fn c05(tier: Tier) -> Vec<Case> {
    let mut b = Builder::new();
    let inputs = memo_inputs(tier);
    for (g, names) in memo_bases(tier) {
        let grp = b.new_group();
        for (vi, mask) in subsets(names.len()).into_iter().enumerate() {
            let gv = with_memo(&g, &names, mask);
            b.add_variant(grp, vi, "memo-subsets", gv, inputs.clone(), &format!("mask{mask}"));
        }
    }
    for (g, names) in memo_bases_nullable() {
        let grp = b.new_group();
        for (vi, mask) in subsets(names.len()).into_iter().enumerate() {
            b.add_variant(grp, vi, "memo-subsets/nullable", with_memo(&g, &names, mask), inputs.clone(), &format!("mask{mask}"));
        }
    }
    // everything a memoized body can begin with, in every spelling (case-insensitive literals written in either
    // case, one or two characters, ranges, an upper-case literal); every alternative of A and B begins with a
    // literal or range, and the inputs contain both cases
    {
        let inputs = InputSpec::Strings { alphabet: vec!['b', 'B', 'c', 'x'], max_len: if tier == Tier::Quick { 4 } else { 5 } };
        let heads = vec![ilit("b"), ilit("B"), ilit("bc"), ilit("Bc"), range('a', 'c'), range('A', 'C'), lit("B")];
        let root = choice(vec![seq(vec![field("a", "A"), lit("x")]), seq(vec![field("b", "B"), lit("c")]), seq(vec![field("b", "B"), field("a", "A")]), field("a", "A")]);
        for h1 in &heads {
            for h2 in &heads {
                let g = Grammar {
                    rules: vec![
                        Rule::normal("Root", vec![Directive::Export, Directive::NoSkipWs, Directive::Position], root.clone()),
                        Rule::normal("A", vec![Directive::NoSkipWs, Directive::Position], choice(vec![seq(vec![h1.clone(), opt(field("b", "B"))]), seq(vec![lit("c"), field("b", "B")])])),
                        Rule::normal("B", vec![Directive::NoSkipWs, Directive::String], choice(vec![seq(vec![h2.clone(), opt(lit("c"))]), seq(vec![lit("x"), h2.clone()])])),
                    ],
                };
                if !wf::well_formed(&g) {
                    continue;
                }
                let names = vec!["Root".to_string(), "A".to_string(), "B".to_string()];
                let grp = b.new_group();
                for (vi, mask) in subsets(3).into_iter().enumerate() {
                    b.add_variant(grp, vi, "memo-subsets/literal-heads", with_memo(&g, &names, mask), inputs.clone(), &format!("mask{mask}"));
                }
            }
        }
    }
    // @memoize together with a pure @check that refuses some values (chk_nob: values containing the letter b)
    let inputs = memo_inputs(tier);
    let step = if tier == Tier::Quick { 3 } else { 1 };
    for (g, names) in memo_bases(Tier::Quick).into_iter().step_by(step) {
        for which in ["A", "B"] {
            let mut g2 = g.clone();
            if let Some(r) = g2.rules.iter_mut().find(|r| r.name == which) {
                r.directives.insert(0, Directive::Check(vec!["hrt".into(), "user".into(), "chk_nob".into()]));
            }
            let grp = b.new_group();
            for (vi, mask) in subsets(names.len()).into_iter().enumerate() {
                let gv = with_memo(&g2, &names, mask);
                b.add_variant(grp, vi, "memo-subsets/with-check", gv, inputs.clone(), &format!("mask{mask}"));
            }
        }
    }
    // two memoized rules related by a simple override (same Rust type): A = ['c'] @:B, A = 'c' @:B 'c', ...
    {
        let inputs = memo_inputs(tier);
        let roots = vec![
            choice(vec![seq(vec![field("a", "A"), lit("x")]), seq(vec![field("b", "B"), lit("c")]), seq(vec![field("b", "B"), field("a", "A")]), field("a", "A")]),
            choice(vec![seq(vec![field("b", "B"), lit("x")]), seq(vec![field("a", "A"), lit("x")]), star(choice(vec![field("a", "A"), field("b", "B")]))]),
        ];
        let a_bodies = vec![seq(vec![opt(lit("c")), over("B")]), seq(vec![lit("c"), over("B"), lit("c")]), seq(vec![not(lit("c")), over("B")]), choice(vec![seq(vec![lit("c"), over("B")]), over("B")])];
        let b_bodies = vec![seq(vec![lit("b"), opt(lit("b"))]), choice(vec![seq(vec![lit("c"), lit("b")]), lit("b")])];
        for r in &roots {
            for ab in &a_bodies {
                for bb in &b_bodies {
                    for bkind in [Directive::String, Directive::Position] {
                        let g = Grammar {
                            rules: vec![
                                Rule::normal("Root", vec![Directive::Export, Directive::NoSkipWs, Directive::Position], r.clone()),
                                Rule::normal("A", vec![Directive::NoSkipWs], ab.clone()),
                                Rule::normal("B", vec![Directive::NoSkipWs, bkind.clone()], bb.clone()),
                            ],
                        };
                        if !wf::well_formed(&g) {
                            continue;
                        }
                        let names = vec!["Root".to_string(), "A".to_string(), "B".to_string()];
                        let grp = b.new_group();
                        for (vi, mask) in subsets(3).into_iter().enumerate() {
                            b.add_variant(grp, vi, "memo-subsets/alias", with_memo(&g, &names, mask), inputs.clone(), &format!("mask{mask}"));
                        }
                    }
                }
            }
        }
    }
    // rules that are also pulled in with `>`: memoizing them must not change what the include site does
    {
        let inputs = memo_inputs_ws(tier);
        let chk = Directive::Check(vec!["hrt".into(), "user".into(), "chk_nob2".into()]);
        let a_bodies = vec![seq(vec![field("x", "B"), lit("c"), field("y", "B")]), seq(vec![field("x", "B"), opt(lit("c"))])];
        let roots = vec![
            choice(vec![seq(vec![lit("x"), inc("A"), lit("x")]), seq(vec![field("a", "A"), lit("c")]), seq(vec![lit("x"), field("b", "B")])]),
            seq(vec![star(seq(vec![inc("A"), lit("x")])), opt(field("a", "A"))]),
            // the included fields keep their arity in the includer (include in the top-level sequence)
            seq(vec![lit("x"), inc("A"), opt(lit("x"))]),
            seq(vec![inc("A"), opt(field("a", "A"))]),
        ];
        let a_bodies = {
            let mut v = a_bodies;
            v.push(seq(vec![field("x", "B"), opt(seq(vec![lit("c"), field("y", "B")]))]));
            v
        };
        for r in &roots {
            for ab in &a_bodies {
                for a_noskip in [false, true] {
                    for root_noskip in [false, true] {
                        for a_check in [false, true] {
                            let mut ad = dirs(a_noskip, &[]);
                            if a_check {
                                ad.push(chk.clone());
                            }
                            let g = Grammar {
                                rules: vec![
                                    Rule::normal("Root", dirs(root_noskip, &[Directive::Export, Directive::Position]), r.clone()),
                                    Rule::normal("A", ad, ab.clone()),
                                    Rule::normal("B", vec![Directive::NoSkipWs, Directive::String], seq(vec![lit("b"), opt(lit("b"))])),
                                ],
                            };
                            if !wf::well_formed(&g) {
                                continue;
                            }
                            let names = vec!["Root".to_string(), "A".to_string(), "B".to_string()];
                            let grp = b.new_group();
                            for (vi, mask) in subsets(3).into_iter().enumerate() {
                                b.add_variant(grp, vi, "memo-subsets/included", with_memo(&g, &names, mask), inputs.clone(), &format!("mask{mask}"));
                            }
                        }
                    }
                }
            }
        }
    }
    // long inputs: cache keys and offsets beyond 8 and 16 bits (short inputs first: histories use the first ones)
    {
        let mut inputs: Vec<String> = vec!["bx".into(), "bcx".into(), "bbc".into(), "cx".into()];
        for n in super::e1::long_counts(tier) {
            inputs.push("bx".repeat(n));
            inputs.push(format!("{}c", "bbx".repeat(n)));
            inputs.push(format!("{}b", "cbx".repeat(n)));
        }
        let spec = InputSpec::List(inputs);
        let a_body = choice(vec![seq(vec![field("b", "B"), lit("c")]), field("b", "B")]);
        let b_body = choice(vec![seq(vec![lit("b"), lit("b")]), lit("b"), seq(vec![lit("c"), lit("b")])]);
        let root = seq(vec![star(choice(vec![seq(vec![field("a", "A"), lit("y")]), seq(vec![field("a", "A"), lit("x")]), seq(vec![field("b", "B"), lit("x")])])), opt(field("t", "A"))]);
        let g = Grammar {
            rules: vec![
                Rule::normal("Root", vec![Directive::Export, Directive::NoSkipWs, Directive::Position], root),
                Rule::normal("A", vec![Directive::NoSkipWs, Directive::Position], a_body),
                Rule::normal("B", vec![Directive::NoSkipWs, Directive::String], b_body),
            ],
        };
        let names = vec!["Root".to_string(), "A".to_string(), "B".to_string()];
        let grp = b.new_group();
        for (vi, mask) in subsets(3).into_iter().enumerate() {
            b.add_variant(grp, vi, "memo-subsets/long-inputs", with_memo(&g, &names, mask), spec.clone(), &format!("mask{mask}"));
        }
        // a second alternative that re-reads the whole prefix: the same rule is looked up again at offsets it was
        // stored at thousands of bytes (and many other entries) earlier
        let mut inputs: Vec<String> = vec!["bx".into(), "bc".into(), "b".into()];
        for n in super::e1::long_counts(tier).into_iter().filter(|n| *n <= 4097) {
            for tail in ["x", "c", "y"] {
                inputs.push(format!("{}{tail}", "b".repeat(n)));
                inputs.push(format!("{}{tail}", "cb".repeat(n)));
            }
        }
        let spec = InputSpec::List(inputs);
        let item = choice(vec![lit("b"), seq(vec![lit("c"), lit("b")])]);
        let root = choice(vec![
            seq(vec![star(field("items", "A")), lit("x"), Expr::Eoi]),
            seq(vec![star(field("items", "A")), lit("c"), Expr::Eoi]),
            seq(vec![field("first", "A"), star(field("items", "A")), opt(lit("y"))]),
        ]);
        let g = Grammar {
            rules: vec![
                Rule::normal("Root", vec![Directive::Export, Directive::NoSkipWs, Directive::Position], root),
                Rule::normal("A", vec![Directive::NoSkipWs, Directive::Position], item),
            ],
        };
        let names = vec!["Root".to_string(), "A".to_string()];
        let grp = b.new_group();
        for (vi, mask) in subsets(2).into_iter().enumerate() {
            b.add_variant(grp, vi, "memo-subsets/long-inputs", with_memo(&g, &names, mask), spec.clone(), &format!("mask{mask}"));
        }
    }
    // more than 64 memoized rules in one grammar (count boundaries of per-grammar bookkeeping)
    {
        let n = 70usize;
        let mut rules = vec![Rule::normal("Root", vec![Directive::Export, Directive::NoSkipWs], seq(vec![field("k", "K"), opt(field("t", "K")), Expr::Eoi]))];
        rules.push(Rule::normal("K", vec![Directive::NoSkipWs], choice((0..n).map(|i| over(&format!("K{i:02}"))).collect())));
        for i in 0..n {
            rules.push(Rule::normal(&format!("K{i:02}"), vec![Directive::NoSkipWs, Directive::String], lit(&format!("k{i:02}"))));
        }
        let g = Grammar { rules };
        let names: Vec<String> = (0..n).map(|i| format!("K{i:02}")).collect();
        let inputs: Vec<String> = ["k00", "k01", "k63", "k64", "k65", "k69", "k7", "k64k00", "k00k64", "k65k01", "k6"].iter().map(|s| s.to_string()).collect();
        let grp = b.new_group();
        b.add_variant(grp, 0, "memo-subsets/many-rules", g.clone(), InputSpec::List(inputs.clone()), "mask0");
        let mut all = g.clone();
        for r in &mut all.rules {
            if names.contains(&r.name) {
                r.directives.insert(0, Directive::Memoize);
            }
        }
        b.add_variant(grp, 1, "memo-subsets/many-rules", all, InputSpec::List(inputs.clone()), "mask-all");
    }
    // a memoized rule (whose tree holds a @string rule) evaluated first inside the body of another @string rule and then,
    // at the same offset, from an ordinary field
    {
        let inputs = InputSpec::Strings { alphabet: vec!['b', 'c', 'x', ' '], max_len: if tier == Tier::Quick { 5 } else { 6 } };
        for skip_i in [false, true] {
            let nd = |on: bool, mut v: Vec<Directive>| {
                if on {
                    v.push(Directive::NoSkipWs);
                }
                v
            };
            let g = Grammar {
                rules: vec![
                    Rule::normal("Root", vec![Directive::Export, Directive::Position], choice(vec![field("q", "Q"), field("p", "Pl"), seq(vec![not(rref("P")), field("w", "W")])])),
                    Rule::normal("Q", vec![], seq(vec![field("path", "P"), lit("x"), field("name", "I")])),
                    Rule::normal("Pl", vec![], seq(vec![field("name", "I"), opt(field("w", "W"))])),
                    Rule::normal("W", vec![Directive::Position], seq(vec![lit("c"), opt(field("i", "I"))])),
                    Rule::normal("P", nd(true, vec![Directive::String]), seq(vec![rref("I"), star(seq(vec![lit("c"), rref("I")]))])),
                    Rule::normal("I", nd(!skip_i, vec![Directive::String]), plus(lit("b"))),
                ],
            };
            let names = vec!["I".to_string(), "P".to_string(), "W".to_string()];
            let grp = b.new_group();
            for (vi, mask) in subsets(3).into_iter().enumerate() {
                b.add_variant(grp, vi, "memo-subsets/inside-string", with_memo(&g, &names, mask), inputs.clone(), &format!("mask{mask}"));
            }
        }
    }
    // a memoized recursive rule reached at one offset through call paths of different depth, on deeply nested inputs
    {
        let mut inputs: Vec<String> = Vec::new();
        let mut depths: Vec<usize> = vec![0, 1, 2, 3];
        for c in [32usize, 64, 128, 256, 512, 1024] {
            depths.extend((c - 8)..=(c + 2));
        }
        for n in depths {
            inputs.push(format!("{}x{}", "(".repeat(n), ")".repeat(n)));
            inputs.push(format!("{}x{}!", "(".repeat(n), ")".repeat(n)));
        }
        let g = Grammar {
            rules: vec![
                Rule::normal("Root", vec![Directive::Export, Directive::NoSkipWs], choice(vec![seq(vec![field("a", "Deep"), lit("!"), Expr::Eoi]), seq(vec![field("b", "Nest"), Expr::Eoi])])),
                Rule::normal("Deep", vec![Directive::NoSkipWs], over("W1")),
                Rule::normal("W1", vec![Directive::NoSkipWs], over("W2")),
                Rule::normal("W2", vec![Directive::NoSkipWs], over("Nest")),
                Rule::normal("Nest", vec![Directive::NoSkipWs], choice(vec![seq(vec![lit("("), bfield("inner", "Nest"), lit(")")]), field("leaf", "Leaf")])),
                Rule::normal("Leaf", vec![Directive::NoSkipWs], lit("x")),
            ],
        };
        let names = vec!["Nest".to_string(), "W2".to_string()];
        let grp = b.new_group();
        for (vi, mask) in subsets(2).into_iter().enumerate() {
            b.add_variant(grp, vi, "memo-subsets/deep-recursion", with_memo(&g, &names, mask), InputSpec::List(inputs.clone()), &format!("mask{mask}"));
        }
    }
    let inputs = memo_inputs_ws(tier);
    for (g, names) in memo_bases_mixed_skip(tier) {
        let grp = b.new_group();
        for (vi, mask) in subsets(names.len()).into_iter().enumerate() {
            let gv = with_memo(&g, &names, mask);
            b.add_variant(grp, vi, "memo-subsets/mixed-skip", gv, inputs.clone(), &format!("mask{mask}"));
        }
    }
    b.cases
}

/// prefix the body of every normal rule with its own probe (an extern rule that consumes nothing and
/// records the offset at which it was called)
pub fn with_probes(g: &Grammar) -> Grammar {
    with_probes_named(g, "probe")
}

/// `stem` = "probe" (plain) or "probex" (functions that take the user context)
pub fn with_probes_named(g: &Grammar, stem: &str) -> Grammar {
    let mut rules = Vec::new();
    let mut probes = Vec::new();
    let mut i = 0;
    for r in &g.rules {
        if let RuleDef::Normal(body) = &r.def {
            let pname = format!("P{i}");
            let func = format!("hrt::user::{stem}{i}");
            probes.push(Rule::ext(&pname, &func, Some("hrt::user::U")));
            let nb = match body {
                Expr::Seq(parts) => {
                    let mut v = vec![rref(&pname)];
                    v.extend(parts.iter().cloned());
                    seq(v)
                }
                other => seq(vec![rref(&pname), other.clone()]),
            };
            rules.push(Rule { name: r.name.clone(), directives: r.directives.clone(), def: RuleDef::Normal(nb) });
            i += 1;
        } else {
            rules.push(r.clone());
        }
    }
    rules.extend(probes);
    Grammar { rules }
}

/// a left-recursive rule whose operands are memoized rules: the memoized ones must still be evaluated once per position
fn leftrec_memo_bases() -> Vec<Grammar> {
    let mut out = Vec::new();
    let t_bodies = vec![lit("n"), seq(vec![lit("n"), opt(lit("!"))]), choice(vec![seq(vec![lit("("), bfield("e", "E"), lit(")")]), lit("n")])];
    let e_bodies = vec![
        choice(vec![seq(vec![bfield("l", "E"), lit("+"), field("r", "T")]), field("t", "T")]),
        choice(vec![seq(vec![bfield("l", "E"), lit("+"), field("r", "T")]), seq(vec![bfield("l", "E"), lit("!")]), field("t", "T")]),
        choice(vec![seq(vec![bfield("l", "E"), field("r", "T")]), field("t", "T")]),
    ];
    let roots = vec![field("e", "E"), choice(vec![seq(vec![field("e", "E"), lit("=")]), field("e", "E")]), seq(vec![opt(field("t", "T")), opt(field("e", "E"))])];
    for t in &t_bodies {
        for e in &e_bodies {
            for r in &roots {
                for tmemo in [true, false] {
                    let g = Grammar {
                        rules: vec![
                            Rule::normal("Root", vec![Directive::Export, Directive::NoSkipWs, Directive::Position], r.clone()),
                            Rule::normal("E", vec![Directive::Leftrec, Directive::NoSkipWs, Directive::Position], e.clone()),
                            Rule::normal("T", if tmemo { vec![Directive::Memoize, Directive::NoSkipWs, Directive::Position] } else { vec![Directive::NoSkipWs, Directive::Position] }, t.clone()),
                        ],
                    };
                    if wf::well_formed(&g) {
                        out.push(g);
                    }
                }
            }
        }
    }
    out
}

pub fn c06(tier: Tier) -> Vec<Case> {
    let mut b = Builder::new();
    for g in leftrec_memo_bases() {
        b.add("memo-probes/with-leftrec", with_probes(&g), InputSpec::Strings { alphabet: vec!['n', '+', '!', '('], max_len: if tier == Tier::Quick { 4 } else { 5 } });
    }
    // a memoized rule that is referenced only from inside lookaheads (keyword guards)
    for k_body in [lit("bc"), seq(vec![lit("b"), lit("c")]), choice(vec![lit("c"), seq(vec![lit("b"), lit("b")])])] {
        for root in [
            choice(vec![seq(vec![not(rref("K")), lit("b"), lit("x")]), seq(vec![not(rref("K")), lit("b"), lit("c")]), seq(vec![not(rref("K")), lit("b")])]),
            seq(vec![star(choice(vec![seq(vec![and(rref("K")), lit("b"), lit("c"), lit("x")]), seq(vec![and(rref("K")), lit("b")]), seq(vec![not(rref("K")), rref("char")])])), Expr::Eoi]),
        ] {
            let g = Grammar {
                rules: vec![
                    Rule::normal("Root", vec![Directive::Export, Directive::NoSkipWs], root.clone()),
                    Rule::normal("K", vec![Directive::NoSkipWs, Directive::Memoize], k_body.clone()),
                ],
            };
            if wf::well_formed(&g) {
                b.add("memo-probes/lookahead-only", with_probes(&g), memo_inputs(tier));
            }
        }
    }
    // many distinct positions in one parse, then backtracking over all of them
    {
        let mut inputs: Vec<String> = Vec::new();
        for n in [1usize, 2, 255, 256, 257, 4095, 4096, 4097, 5000] {
            inputs.push(format!("{}x", "b".repeat(n)));
            inputs.push(format!("{}c", "b".repeat(n)));
        }
        if tier == Tier::Thorough {
            for n in [65535usize, 65536, 65537, 70000] {
                inputs.push(format!("{}x", "b".repeat(n)));
            }
        }
        let g = Grammar {
            rules: vec![
                Rule::normal("Root", vec![Directive::Export, Directive::NoSkipWs], choice(vec![seq(vec![field("i", "Items"), lit("c"), Expr::Eoi]), seq(vec![field("i", "Items"), lit("x"), Expr::Eoi])])),
                Rule::normal("Items", vec![Directive::NoSkipWs], star(field("i", "Item"))),
                Rule::normal("Item", vec![Directive::NoSkipWs, Directive::Memoize], lit("b")),
            ],
        };
        b.add("memo-probes/long-inputs", with_probes(&g), InputSpec::List(inputs));
    }
    // memoized rules that fail because a check function says no, in parsers built with a user context type
    // (and without one): the verdict of a pure function is cached like any other failure
    {
        let inputs = memo_inputs(tier);
        let step = if tier == Tier::Quick { 2 } else { 1 };
        for (g, names) in memo_bases(Tier::Quick).into_iter().step_by(step) {
            for which in ["A", "B"] {
                for ctxv in [true, false] {
                    let mut g2 = g.clone();
                    if let Some(r) = g2.rules.iter_mut().find(|r| r.name == which) {
                        r.directives.insert(0, Directive::Check(vec!["hrt".into(), "user".into(), if ctxv { "chkx_nob" } else { "chk_nob" }.into()]));
                    }
                    for mask in [7u32, 3, 6] {
                        let gv = with_probes_named(&with_memo(&g2, &names, mask), if ctxv { "probex" } else { "probe" });
                        if b.add(if ctxv { "memo-probes/with-check/ctx" } else { "memo-probes/with-check" }, gv, inputs.clone()) {
                            b.last().user_ctx = ctxv;
                        }
                    }
                }
            }
        }
    }
    let inputs = memo_inputs(tier);
    for (g, names) in memo_bases_nullable() {
        for mask in subsets(names.len()) {
            if mask == 0 {
                continue;
            }
            let gv = with_probes(&with_memo(&g, &names, mask));
            if b.add("memo-probes/nullable", gv, inputs.clone()) {
                b.last().note = format!("mask{mask}");
            }
        }
    }
    for (g, names) in memo_bases(tier) {
        for mask in subsets(names.len()) {
            if mask == 0 {
                continue;
            }
            let gv = with_probes(&with_memo(&g, &names, mask));
            b.add("memo-probes", gv, inputs.clone());
            b.last().note = format!("mask{mask}");
        }
    }
    b.cases
}

// ------------------------------------------------------------------------------------------ C07

fn n_rule() -> Rule {
    Rule::normal("N", vec![Directive::String, Directive::NoSkipWs], lit("n"))
}

pub fn c07(tier: Tier) -> Vec<Case> {
    let mut b = Builder::new();
    let len = if tier == Tier::Quick { 5 } else { 7 };
    // (a) the usual shape
    let tails: Vec<(&str, Expr)> = vec![
        ("plus", seq(vec![lit("+"), field("r", "N")])),
        ("minus", seq(vec![lit("-"), field("r", "N")])),
        ("bang", lit("!")),
        ("plusplus", seq(vec![lit("+"), lit("+")])),
    ];
    // `guarded`: the base alternative fails on a negative lookahead at the very offset the rule was entered at
    let bases: Vec<(&str, Expr)> = vec![
        ("n", field("n", "N")),
        ("nn", seq(vec![field("n", "N"), field("m", "N")])),
        ("bang", lit("!")),
        ("guarded", seq(vec![not(lit("-")), field("n", "N")])),
    ];
    let inputs_a = InputSpec::Strings { alphabet: vec!['n', '+', '-', '!'], max_len: len };
    let rec = |tail: &Expr| -> Expr {
        match tail {
            Expr::Seq(parts) => {
                let mut v = vec![bfield("l", "A")];
                v.extend(parts.iter().cloned());
                seq(v)
            }
            other => seq(vec![bfield("l", "A"), other.clone()]),
        }
    };
    let mut tail_sets: Vec<Vec<usize>> = Vec::new();
    for i in 0..tails.len() {
        tail_sets.push(vec![i]);
        for j in 0..tails.len() {
            if i != j {
                tail_sets.push(vec![i, j]);
            }
        }
    }
    let mut base_sets: Vec<Vec<usize>> = Vec::new();
    for i in 0..bases.len() {
        base_sets.push(vec![i]);
        for j in 0..bases.len() {
            if i != j {
                base_sets.push(vec![i, j]);
            }
        }
    }
    for ts in &tail_sets {
        for bs in &base_sets {
            for base_first in [false, true] {
                for root_kind in 0..3 {
                    let mut arms: Vec<Expr> = Vec::new();
                    let recs: Vec<Expr> = ts.iter().map(|i| rec(&tails[*i].1)).collect();
                    let bas: Vec<Expr> = bs.iter().map(|i| bases[*i].1.clone()).collect();
                    if base_first {
                        arms.extend(bas.iter().cloned());
                        arms.extend(recs.iter().cloned());
                    } else {
                        arms.extend(recs.iter().cloned());
                        arms.extend(bas.iter().cloned());
                    }
                    // kind 2: the first alternative always fails after A matched ('=' is not in the alphabet),
                    // so A is asked for a second time at the same position
                    let root = match root_kind {
                        0 => field("a", "A"),
                        1 => seq(vec![field("a", "A"), Expr::Eoi]),
                        _ => choice(vec![seq(vec![field("a", "A"), lit("=")]), field("a", "A")]),
                    };
                    let g = Grammar {
                        rules: vec![
                            Rule::normal("Root", vec![Directive::Export, Directive::Position, Directive::NoSkipWs], root),
                            Rule::normal("A", vec![Directive::Leftrec, Directive::Position, Directive::NoSkipWs], choice(arms)),
                            n_rule(),
                        ],
                    };
                    if !wf::well_formed(&g) {
                        continue;
                    }
                    let fam = if base_first { "leftrec/usual/base-first" } else { "leftrec/usual/recursive-first" };
                    // the closed form knows bases made of tokens only (not the guarded one)
                    let guarded = bs.contains(&3);
                    let note: String = if base_first { "base-first".into() } else if guarded { "recursive-first".into() } else { "recursive-first closed-form".into() };
                    // the redundant but legal combination: @memoize written before / after @leftrec on the same rule
                    let mut variants: Vec<(&str, Grammar)> = vec![(fam, g.clone())];
                    if ts.len() == 1 && bs.len() == 1 {
                        for front in [true, false] {
                            let mut g2 = g.clone();
                            if front {
                                g2.rules[1].directives.insert(0, Directive::Memoize);
                            } else {
                                g2.rules[1].directives.push(Directive::Memoize);
                            }
                            variants.push(("leftrec/usual/with-memoize", g2));
                        }
                    }
                    for (fam, g) in variants {
                        if b.add(fam, g, inputs_a.clone()) {
                            b.last().note = note.clone();
                        }
                    }
                }
            }
        }
    }
    // (a'') long inputs: left-recursive rules entered at every offset up to 1025 (two nested levels, parentheses)
    {
        let mut inputs: Vec<String> = Vec::new();
        for k in [1usize, 2, 3, 16, 31, 32, 33, 34, 63, 64, 65, 66, 127, 128, 129, 130, 255, 256, 257, 513] {
            inputs.push(vec!["n"; k].join("+"));
            inputs.push(vec!["n"; k].join("*"));
            inputs.push(format!("{}+(n*n)", vec!["n"; k].join("+")));
            inputs.push(format!("{}(n+n)", "n*".repeat(k)));
        }
        let g = Grammar {
            rules: vec![
                Rule::normal("Root", vec![Directive::Export, Directive::NoSkipWs], seq(vec![field("e", "E"), Expr::Eoi])),
                Rule::normal("E", vec![Directive::Leftrec, Directive::NoSkipWs], choice(vec![seq(vec![bfield("l", "E"), lit("+"), field("r", "T")]), field("t", "T")])),
                Rule::normal("T", vec![Directive::Leftrec, Directive::NoSkipWs], choice(vec![seq(vec![bfield("l", "T"), lit("*"), field("r", "A")]), field("a", "A")])),
                Rule::normal("A", vec![Directive::NoSkipWs], choice(vec![seq(vec![lit("("), bfield("e", "E"), lit(")")]), field("n", "N")])),
                n_rule(),
            ],
        };
        if wf::well_formed(&g) && b.add("leftrec/long-inputs", g, InputSpec::List(inputs)) {
            b.last().note = "recursive-first".into();
        }
        // two left-recursive rules evaluated at one position, the inner one reached before the outer rule's own
        // recursive reference (an alternative with a shared prefix / a lookahead in front)
        let inputs = InputSpec::Strings { alphabet: vec!['n', '+', '*', '!'], max_len: if tier == Tier::Quick { 6 } else { 7 } };
        for first in [seq(vec![field("m", "T"), lit("!")]), seq(vec![not(seq(vec![rref("T"), lit("!")])), bfield("l", "E"), lit("+"), field("r", "T")])] {
            let g = Grammar {
                rules: vec![
                    Rule::normal("Root", vec![Directive::Export, Directive::NoSkipWs], seq(vec![field("e", "E"), Expr::Eoi])),
                    Rule::normal("E", vec![Directive::Leftrec, Directive::NoSkipWs], choice(vec![first.clone(), seq(vec![bfield("l", "E"), lit("+"), field("r", "T")]), field("t", "T")])),
                    Rule::normal("T", vec![Directive::Leftrec, Directive::NoSkipWs], choice(vec![seq(vec![bfield("l", "T"), lit("*"), field("r", "N")]), field("n", "N")])),
                    n_rule(),
                ],
            };
            if wf::well_formed(&g) && b.add("leftrec/two-rules-one-position", g, inputs.clone()) {
                b.last().note = "base-first".into();
            }
        }
    }
    // (a3) recursive alternatives that share a prefix containing a nested reference to the rule itself
    {
        let inputs = InputSpec::Strings { alphabet: vec!['n', '[', ']', ':', '('], max_len: if tier == Tier::Quick { 7 } else { 8 } };
        let idx = seq(vec![bfield("l", "A"), lit("["), bfield("i", "A"), lit("]")]);
        let slice = seq(vec![bfield("l", "A"), lit("["), bfield("i", "A"), lit(":"), bfield("j", "A"), lit("]")]);
        let call = seq(vec![bfield("l", "A"), lit("("), bfield("i", "A"), lit("]")]);
        let empty_call = seq(vec![bfield("l", "A"), lit("("), lit("]")]);
        for arms in [vec![idx.clone(), slice.clone(), field("n", "N")], vec![slice.clone(), idx.clone(), field("n", "N")], vec![call.clone(), empty_call.clone(), field("n", "N")], vec![idx.clone(), slice.clone(), call.clone(), empty_call.clone(), field("n", "N")]] {
            for root_kind in 0..2 {
                let root = if root_kind == 0 { seq(vec![field("a", "A"), Expr::Eoi]) } else { field("a", "A") };
                let g = Grammar {
                    rules: vec![
                        Rule::normal("Root", vec![Directive::Export, Directive::Position, Directive::NoSkipWs], root),
                        Rule::normal("A", vec![Directive::Leftrec, Directive::Position, Directive::NoSkipWs], choice(arms.clone())),
                        n_rule(),
                    ],
                };
                if wf::well_formed(&g) && b.add("leftrec/shared-prefix", g, inputs.clone()) {
                    b.last().note = "recursive-first".into();
                }
            }
        }
    }
    // (a') base alternatives before, between and after the recursive one; bases that recurse at a later position
    {
        let inputs = InputSpec::Strings { alphabet: vec!['n', '+', '-', '(', ')'], max_len: if tier == Tier::Quick { 6 } else { 7 } };
        let neg = seq(vec![lit("-"), field("m", "N")]);
        let paren = seq(vec![lit("("), bfield("e", "A"), lit(")")]);
        let recp = seq(vec![bfield("l", "A"), lit("+"), field("r", "N")]);
        let num = field("n", "N");
        let orders: Vec<Vec<Expr>> = vec![
            vec![neg.clone(), recp.clone(), paren.clone(), num.clone()],
            vec![recp.clone(), neg.clone(), paren.clone(), num.clone()],
            vec![paren.clone(), recp.clone(), num.clone()],
            vec![neg.clone(), paren.clone(), num.clone(), recp.clone()],
            vec![recp.clone(), paren.clone(), num.clone()],
        ];
        for arms in orders {
            let recursive_first = matches!(&arms[0], Expr::Seq(v) if matches!(&v[0], Expr::Ref { rule, .. } if rule == "A"));
            for root in [field("a", "A"), seq(vec![field("a", "A"), Expr::Eoi])] {
                let g = Grammar {
                    rules: vec![
                        Rule::normal("Root", vec![Directive::Export, Directive::Position, Directive::NoSkipWs], root),
                        Rule::normal("A", vec![Directive::Leftrec, Directive::Position, Directive::NoSkipWs], choice(arms.clone())),
                        n_rule(),
                    ],
                };
                if wf::well_formed(&g) && b.add("leftrec/mixed-order", g, inputs.clone()) {
                    b.last().note = if recursive_first { "recursive-first".into() } else { "mixed-order".into() };
                }
            }
        }
    }
    // (c) indirect recursion through a non-memoized rule
    let inputs_c = InputSpec::Strings { alphabet: vec!['n', '+', '!'], max_len: len };
    for b_body in [
        seq(vec![bfield("l", "A"), lit("+"), field("r", "N")]),
        choice(vec![seq(vec![bfield("l", "A"), lit("+"), field("r", "N")]), seq(vec![bfield("l", "A"), lit("!")])]),
    ] {
        for a_body in [choice(vec![field("b", "B"), field("n", "N")]), choice(vec![seq(vec![field("b", "B"), opt(lit("!"))]), field("n", "N")])] {
            let g = Grammar {
                rules: vec![
                    Rule::normal("Root", vec![Directive::Export, Directive::Position, Directive::NoSkipWs], seq(vec![field("a", "A"), opt(Expr::Eoi)])),
                    Rule::normal("A", vec![Directive::Leftrec, Directive::Position, Directive::NoSkipWs], a_body.clone()),
                    Rule::normal("B", vec![Directive::Position, Directive::NoSkipWs], b_body.clone()),
                    n_rule(),
                ],
            };
            if wf::well_formed(&g) && b.add("leftrec/indirect", g, inputs_c.clone()) {
                b.last().note = "recursive-first".into();
            }
        }
    }
    // (c') the way back to the rule goes through a body pulled in with `>` (directly, or one rule further down)
    for b_body in [
        seq(vec![bfield("l", "A"), lit("+"), field("r", "N")]),
        choice(vec![seq(vec![bfield("l", "A"), lit("+"), field("r", "N")]), seq(vec![bfield("l", "A"), lit("!")])]),
    ] {
        for (a_body, c_rule) in [
            (choice(vec![inc("B"), field("n", "N")]), None),
            (choice(vec![seq(vec![inc("B"), opt(lit("!"))]), field("n", "N")]), None),
            (choice(vec![field("c", "C"), field("n", "N")]), Some(Rule::normal("C", vec![Directive::Position, Directive::NoSkipWs], inc("B")))),
            (choice(vec![seq(vec![inc("C"), lit("!")]), field("n", "N")]), Some(Rule::normal("C", vec![Directive::NoSkipWs], seq(vec![field("b", "B")])))),
        ] {
            let mut rules = vec![
                Rule::normal("Root", vec![Directive::Export, Directive::Position, Directive::NoSkipWs], seq(vec![field("a", "A"), opt(Expr::Eoi)])),
                Rule::normal("A", vec![Directive::Leftrec, Directive::Position, Directive::NoSkipWs], a_body.clone()),
                Rule::normal("B", vec![Directive::Position, Directive::NoSkipWs], b_body.clone()),
                n_rule(),
            ];
            rules.extend(c_rule);
            let g = Grammar { rules };
            if wf::well_formed(&g) && b.add("leftrec/indirect-through-include", g, inputs_c.clone()) {
                b.last().note = "recursive-first".into();
            }
        }
    }
    // (d) unusual bodies within the quantifier
    let inputs_d = InputSpec::Strings { alphabet: vec!['n', 'x', 'y', '+'], max_len: len };
    let unusual: Vec<(&str, Expr)> = vec![
        ("opt-rec", seq(vec![opt(bfield("inner", "A")), lit("x")])),
        ("two-tails", choice(vec![seq(vec![bfield("l", "A"), lit("x")]), seq(vec![bfield("l", "A"), lit("y"), lit("y")]), field("n", "N")])),
        ("grouped", seq(vec![choice(vec![bfield("l", "A"), field("n", "N")]), lit("x")])),
        ("twice", choice(vec![seq(vec![bfield("l", "A"), lit("+"), bfield("r", "A")]), field("n", "N")])),
        ("rec-in-closure-tail", choice(vec![seq(vec![bfield("l", "A"), plus(lit("x"))]), field("n", "N")])),
        ("lookahead-tail", choice(vec![seq(vec![bfield("l", "A"), lit("x"), not(lit("y"))]), field("n", "N")])),
        ("unnamed-rec", choice(vec![seq(vec![rref("A"), lit("x")]), field("n", "N")])),
        ("nullable-base", choice(vec![seq(vec![bfield("l", "A"), lit("x")]), opt(field("n", "N"))])),
        // tails that can match nothing: a re-evaluation that ends where the previous one ended is not a growth step
        ("closure-tail", choice(vec![seq(vec![bfield("l", "A"), star(seq(vec![lit("+"), field("r", "N")]))]), field("n", "N")])),
        ("optional-tail", choice(vec![seq(vec![bfield("l", "A"), opt(seq(vec![lit("+"), field("r", "N")]))]), field("n", "N")])),
        ("empty-alternative-tail", choice(vec![seq(vec![bfield("l", "A"), Expr::Group(Box::new(choice(vec![lit("x"), seq(vec![])])))]), field("n", "N")])),
        ("lookahead-only-tail", choice(vec![seq(vec![bfield("l", "A"), not(lit("y"))]), field("n", "N")])),
        ("no-tail", choice(vec![bfield("l", "A"), field("n", "N")])),
    ];
    for (name, body) in unusual {
        for root in [
            field("a", "A"),
            seq(vec![field("a", "A"), Expr::Eoi]),
            seq(vec![opt(lit("+")), field("a", "A"), opt(field("b", "A"))]),
            choice(vec![seq(vec![field("a", "A"), lit("=")]), seq(vec![and(rref("A")), field("a", "A")])]),
        ] {
            let g = Grammar {
                rules: vec![
                    Rule::normal("Root", vec![Directive::Export, Directive::Position, Directive::NoSkipWs], root),
                    Rule::normal("A", vec![Directive::Leftrec, Directive::Position, Directive::NoSkipWs], body.clone()),
                    n_rule(),
                ],
            };
            if wf::well_formed(&g) && b.add(&format!("leftrec/unusual/{name}"), g, inputs_d.clone()) {
                b.last().note = "recursive-first".into();
            }
        }
    }
    b.cases
}

// ------------------------------------------------------------------------------------------ C10

pub fn c10(tier: Tier) -> Vec<Case> {
    let mut b = Builder::new();
    // (1) the C01 tree corpus: no memo, no leftrec -> the "furthest" clause, exact where no lookahead
    let leaves = vec![
        Rule::normal("X", vec![Directive::Position], choice(vec![lit("b"), seq(vec![lit("c"), lit("b")])])),
        Rule::chr("D", vec![CharPart::Char(LitChar::canon('c')), CharPart::Range(LitChar::canon('a'), LitChar::canon('a'))]),
        Rule::normal("K", vec![Directive::Check(vec!["hrt".into(), "user".into(), "chk_nob".into()]), Directive::String], seq(vec![range('b', 'c'), opt(lit("c"))])),
        Rule::ext("T", "hrt::user::tok", None),
    ];
    let full_atoms = vec![lit("b"), lit("bc"), ilit("B"), range('b', 'c'), rref("char"), Expr::Eoi, rref("X"), field("f", "X"), rref("D"), field("k", "K"), field("t", "T")];
    let small_atoms = vec![lit("b"), lit("bc"), rref("X"), field("k", "K")];
    let (k_full, k_small, len) = match tier {
        Tier::Quick => (3, 4, 4),
        Tier::Thorough => (4, 5, 5),
    };
    let inputs = InputSpec::Strings { alphabet: vec!['a', 'b', 'c', 'B', ' '], max_len: len };
    let mut all: Vec<Expr> = trees(&full_atoms, &ALL_OPS, k_full);
    for t in trees_by_size(&small_atoms, &ALL_OPS, k_small).into_iter().skip(k_full) {
        all.extend(t);
    }
    for e in &all {
        for noskip in [false, true] {
            let g = root_grammar(dirs(noskip, &[Directive::Export, Directive::Position]), e.clone(), &leaves);
            if wf::well_formed(&g) {
                b.add(if noskip { "errors/no_skip_ws" } else { "errors/skip" }, g, inputs.clone());
            }
        }
    }
    // (1b) a deeper failure left behind by backtracking, then a successful match that ends before it, then failure
    {
        let inputs = InputSpec::Strings { alphabet: vec!['a', 'b', 'c', ' '], max_len: len };
        let backtrackers = vec![
            opt(seq(vec![lit("b"), lit("b"), lit("c")])),
            star(seq(vec![lit("b"), lit("c")])),
            choice(vec![seq(vec![lit("b"), lit("b"), lit("c")]), lit("")]),
            opt(seq(vec![rref("X"), rref("X"), lit("a")])),
            not(seq(vec![lit("b"), lit("b"), lit("b")])),
            opt(seq(vec![field("f", "X"), field("g", "X"), lit("a")])),
            opt(seq(vec![field("f", "X"), opt(seq(vec![field("g", "X"), field("h", "X"), lit("a")]))])),
            star(seq(vec![field("f", "X"), field("k", "K"), lit("a")])),
            choice(vec![seq(vec![field("f", "X"), field("g", "X"), lit("a")]), lit("")]),
        ];
        let middles = vec![field("t", "T"), field("k", "K"), rref("D"), field("f", "X"), lit("b"), rref("char"), range('b', 'c'), ilit("B")];
        let tails = vec![lit("c"), Expr::Eoi, lit("a"), seq(vec![lit("b"), lit("a")])];
        for bt in &backtrackers {
            for m in &middles {
                for t in &tails {
                    for noskip in [false, true] {
                        let g = root_grammar(dirs(noskip, &[Directive::Export, Directive::Position]), seq(vec![bt.clone(), m.clone(), t.clone()]), &leaves);
                        if wf::well_formed(&g) {
                            b.add("errors/match-after-backtrack", g, inputs.clone());
                        }
                    }
                }
            }
        }
    }
    // (1c) failures far to the right
    {
        let mut linputs: Vec<String> = Vec::new();
        for n in super::e1::long_counts(tier) {
            linputs.push(format!("{}a", "b".repeat(n)));
            linputs.push(format!("{}a", "bc".repeat(n)));
            linputs.push(format!("{}", "cb".repeat(n)));
            linputs.push(format!("{} a", "b ".repeat(n)));
        }
        let spec = InputSpec::List(linputs);
        for e in [
            seq(vec![star(lit("b")), lit("c"), Expr::Eoi]),
            seq(vec![star(rref("X")), Expr::Eoi]),
            seq(vec![star(choice(vec![lit("bc"), lit("b")])), opt(field("k", "K")), Expr::Eoi]),
            seq(vec![plus(field("f", "X")), not(lit("a")), lit("c")]),
        ] {
            for noskip in [false, true] {
                let g = root_grammar(dirs(noskip, &[Directive::Export, Directive::Position]), e.clone(), &leaves);
                if wf::well_formed(&g) {
                    b.add("errors/long-inputs", g, spec.clone());
                }
            }
        }
    }
    // closures of a lone token at the end of a skipping rule whose caller does not skip: the iteration that ends the
    // closure fails behind the whitespace it skipped, further right than anything the caller tries next
    {
        let inputs = InputSpec::Strings { alphabet: vec!['c', 'b', ' ', ';'], max_len: if tier == Tier::Quick { 6 } else { 7 } };
        let tails: Vec<Expr> = vec![star(lit("b")), star(range('b', 'b')), plus(lit("b")), star(lit("bb")), star(choice(vec![lit("b"), lit(";")])), opt(lit("b")), star(ilit("b"))];
        for t in &tails {
            for t_kind in 0..3 {
                let td = match t_kind {
                    0 => vec![],
                    1 => vec![Directive::Position],
                    _ => vec![Directive::Check(vec!["hrt".into(), "user".into(), "chk_never".into()])],
                };
                let tr = Rule::normal("T", td, seq(vec![lit("c"), t.clone()]));
                for root in [seq(vec![field("t", "T"), lit(";")]), seq(vec![field("t", "T"), opt(field("u", "T")), Expr::Eoi]), star(seq(vec![field("t", "T"), lit(";")]))] {
                    let g = root_grammar(vec![Directive::Export, Directive::NoSkipWs], root, &[tr.clone()]);
                    if wf::well_formed(&g) {
                        b.add("errors/closure-tail", g, inputs.clone());
                    }
                }
            }
        }
    }
    super::e1::wide_choice_family(&mut b, "errors/wide-choice");
    // user-defined Whitespace with a multi-token alternative (a comment that may stay unterminated): the failures made
    // inside the Whitespace rule count like any other, however often the same run is skipped (also from lookaheads)
    {
        let inputs = InputSpec::Strings { alphabet: vec!['b', 'c', '_', '#', '\n'], max_len: if tier == Tier::Quick { 5 } else { 6 } };
        let ws = Rule::normal("Whitespace", vec![Directive::NoSkipWs], star(choice(vec![lit("_"), rref("Comment")])));
        let comment = Rule::normal("Comment", vec![Directive::NoSkipWs], seq(vec![lit("#"), star(seq(vec![not(lit("\n")), rref("char")])), lit("\n")]));
        let x = Rule::normal("X", vec![Directive::Position], seq(vec![lit("b"), opt(lit("c"))]));
        for body in [
            seq(vec![star(seq(vec![not(lit("c")), field("f", "X"), lit("c")])), Expr::Eoi]),
            seq(vec![not(lit("c")), field("f", "X"), opt(lit("b")), Expr::Eoi]),
            seq(vec![and(rref("X")), choice(vec![seq(vec![field("f", "X"), lit("b")]), field("f", "X")]), lit("c")]),
            seq(vec![star(choice(vec![lit("b"), lit("c")])), Expr::Eoi]),
            choice(vec![seq(vec![lit("b"), lit("b")]), seq(vec![not(lit("b")), lit("c"), field("f", "X")]), seq(vec![lit("b"), lit("c"), lit("c")])]),
        ] {
            let g = root_grammar(vec![Directive::Export, Directive::Position], body, &[x.clone(), ws.clone(), comment.clone()]);
            if wf::well_formed(&g) {
                b.add("errors/user-whitespace", g, inputs.clone());
            }
        }
    }
    // (1d) a choice whose last alternative is empty (the documented way to make a choice optional): the failures made
    // inside the earlier alternatives stay on record when the empty one is taken
    {
        let inputs = InputSpec::Strings { alphabet: vec!['a', 'b', 'c', 'q', 'x'], max_len: if tier == Tier::Quick { 4 } else { 5 } };
        let long = Rule::normal("Long", vec![Directive::String, Directive::NoSkipWs], seq(vec![lit("a"), lit("b"), lit("c")]));
        let short = Rule::normal("Short", vec![Directive::String, Directive::NoSkipWs], seq(vec![lit("q"), lit("b")]));
        let heads = vec![
            choice(vec![field("tag", "Long"), field("tag", "Short"), seq(vec![])]),
            choice(vec![seq(vec![lit("a"), lit("b"), lit("c")]), seq(vec![lit("q"), lit("b")]), seq(vec![])]),
            choice(vec![field("tag", "Long"), seq(vec![])]),
            choice(vec![seq(vec![lit("a"), lit("b"), lit("c")]), field("tag", "Short"), seq(vec![lit("q"), lit("q"), lit("q")]), seq(vec![])]),
        ];
        for h in &heads {
            for (hi, placed) in [false, true].iter().enumerate() {
                for tail in [seq(vec![lit("a"), lit("x"), Expr::Eoi]), seq(vec![lit("x"), Expr::Eoi]), seq(vec![opt(lit("a")), lit("q"), lit("x")])] {
                    let g = if *placed {
                        // the choice in a rule of its own
                        Grammar {
                            rules: vec![
                                Rule::normal("Root", vec![Directive::Export, Directive::NoSkipWs], seq(vec![field("head", "Head"), tail.clone()])),
                                Rule::normal("Head", vec![Directive::NoSkipWs], h.clone()),
                                long.clone(),
                                short.clone(),
                            ],
                        }
                    } else {
                        // the choice as a group inside the sequence
                        Grammar { rules: vec![Rule::normal("Root", vec![Directive::Export, Directive::NoSkipWs], seq(vec![Expr::Group(Box::new(h.clone())), tail.clone()])), long.clone(), short.clone()] }
                    };
                    let _ = hi;
                    if wf::well_formed(&g) {
                        b.add("errors/empty-last-alternative", g, inputs.clone());
                    }
                }
            }
        }
    }
    // (2) memoized grammars: the offset must be real
    let minputs = memo_inputs(tier);
    for (g, names) in memo_bases(Tier::Quick) {
        for mask in [1u32, 2, 4, 7] {
            b.add("errors/memo", with_memo(&g, &names, mask), minputs.clone());
        }
    }
    // (3) left-recursive grammars: never the sentinel when recursive alternatives come first
    for c in c07(Tier::Quick) {
        if b.add(&format!("errors/{}", c.family), c.grammar.clone(), c.inputs.clone()) {
            b.last().note = c.note.clone();
        }
    }
    // sentinel through two callers at one offset
    let g = Grammar {
        rules: vec![
            Rule::normal("Root", vec![Directive::Export, Directive::NoSkipWs], choice(vec![seq(vec![field("a", "A"), lit("y")]), seq(vec![field("a", "A"), lit("z")])])),
            Rule::normal("A", vec![Directive::Leftrec, Directive::NoSkipWs], choice(vec![seq(vec![bfield("l", "A"), lit("x")]), field("n", "N")])),
            n_rule(),
        ],
    };
    b.add("errors/leftrec/two-callers", g, InputSpec::Strings { alphabet: vec!['n', 'x', 'y', 'z', 'c'], max_len: len.min(4) });
    b.last().note = "recursive-first".into();
    b.cases
}

// ------------------------------------------------------------------------------------------ C13

pub fn c13(tier: Tier) -> Vec<Case> {
    let mut b = Builder::new();
    let (k_ctx, len) = match tier {
        Tier::Quick => (3, 4),
        Tier::Thorough => (4, 5),
    };
    let inputs = InputSpec::Strings { alphabet: vec!['b', 'c', ' '], max_len: len };
    let ctxs = contexts(&[lit("b"), field("f", "X")], &NO_LOOKAHEAD_OPS, k_ctx);
    // included bodies
    let bodies: Vec<(&str, Expr)> = vec![
        ("nofield", seq(vec![lit("c"), opt(lit("b"))])),
        ("one", field("g", "X")),
        ("same-as-context", field("f", "X")),
        ("two", seq(vec![field("g", "X"), opt(field("h", "Y"))])),
        ("choice", choice(vec![field("g", "X"), seq(vec![lit("c"), field("h", "Y")])])),
        ("closure", star(seq(vec![lit("c"), field("g", "X")]))),
        ("nested", seq(vec![inc("Inc2"), opt(lit("c"))])),
        ("othertype", field("f", "Y")),
        // bodies that are nothing but an optional / a closure (the include then stands where an inlined
        // optional-in-optional would)
        ("optional", opt(field("g", "X"))),
        ("optional-seq", opt(seq(vec![lit("c"), field("g", "X"), lit("c")]))),
        ("optional-tokens", opt(seq(vec![lit("c"), lit("b"), lit("b")]))),
        ("closure-only", star(field("g", "X"))),
        // a rule that only forwards to a rule whose first alternative is a lone include
        ("forward", inc("Fwd")),
    ];
    let inc_dirs: Vec<(&str, Vec<Directive>)> = vec![
        ("plain", vec![]),
        ("no_skip_ws", vec![Directive::NoSkipWs]),
        ("memoize", vec![Directive::Memoize]),
        ("position", vec![Directive::Position]),
        ("string", vec![Directive::String]),
        ("check", vec![Directive::Check(vec!["hrt".into(), "user".into(), "chk_never".into()])]),
    ];
    for c in &ctxs {
        for (bn, body) in &bodies {
            for (dn, idirs) in &inc_dirs {
                // directives other than plain only on the first few contexts (they must be inert)
                for root_noskip in [false, true] {
                    let leaves = |with_inc: bool| -> Vec<Rule> {
                        let mut v = vec![
                            Rule::normal("X", vec![Directive::String, Directive::NoSkipWs], seq(vec![lit("b"), opt(lit("b"))])),
                            Rule::normal("Y", vec![Directive::String, Directive::NoSkipWs], lit("c")),
                            Rule::normal("Inc2", vec![], seq(vec![field("k", "X")])),
                            Rule::normal("Fwd", vec![], inc("Inner")),
                            Rule::normal("Inner", vec![], choice(vec![inc("Leaf"), field("k", "X")])),
                            Rule::normal("Leaf", vec![], field("l", "Y")),
                        ];
                        if with_inc {
                            v.push(Rule::normal("Inc", idirs.clone(), body.clone()));
                        }
                        v
                    };
                    let rd = dirs(root_noskip, &[Directive::Export, Directive::Position]);
                    let mut g_inc = root_grammar(rd.clone(), fill(c, &inc("Inc")), &leaves(true));
                    let mut g_inl = root_grammar(rd.clone(), fill(c, &group(body.clone())), &leaves(false));
                    // another includer of the same rule, with the opposite skip mode, placed before Root
                    // (never called: it must not influence what Root's include expands to)
                    if *dn == "plain" || *dn == "no_skip_ws" {
                        g_inc.rules.insert(0, Rule::normal("Other", dirs(!root_noskip, &[]), seq(vec![lit("c"), inc("Inc")])));
                        g_inl.rules.insert(0, Rule::normal("Other", dirs(!root_noskip, &[]), seq(vec![lit("c"), group(body.clone())])));
                    }
                    // the quantifier: both must be well-formed as far as the *inlined* grammar goes
                    if !wf::well_formed(&g_inl) {
                        continue;
                    }
                    // a @string included rule may legally contain shapes a normal rule may not; only
                    // the inlined grammar's well-formedness counts. The include variant must not be
                    // excluded for a reason that inlining removes (e.g. Whitespace recursion).
                    let an = wf::Analysis::new(&g_inc);
                    if an.problems().iter().any(|p| !matches!(p, wf::Problem::Restricted(_))) {
                        continue;
                    }
                    let grp = b.new_group();
                    let fam = format!("include/{bn}/{dn}");
                    let renamed = if *dn == "plain" { Some((rename_rules(&g_inc), rename_rules(&g_inl))) } else { None };
                    if b.add_variant(grp, 0, &fam, g_inc, inputs.clone(), "include") {
                        b.add_variant(grp, 1, &fam, g_inl, inputs.clone(), "inlined");
                    }
                    // the same pair with rule names that contain each other (Root > Roo > Ro): names are compared, not searched
                    if let Some((r_inc, r_inl)) = renamed {
                        let grp = b.new_group();
                        let fam = format!("include-overlapping-names/{bn}");
                        if b.add_variant(grp, 0, &fam, r_inc, inputs.clone(), "include") {
                            b.add_variant(grp, 1, &fam, r_inl, inputs.clone(), "inlined");
                        }
                    }
                }
            }
        }
    }
    // includes directly under `&` and `!` (field-less bodies only: fields inside lookaheads are a documented restriction):
    // the lookahead of an included body is the lookahead of the parenthesised body, in both skip modes, with blanks
    {
        let la_bodies: Vec<(&str, Expr)> = vec![
            ("literal", lit("b")),
            ("range", range('b', 'c')),
            ("rule", rref("X")),
            ("eoi", Expr::Eoi),
            ("choice", choice(vec![lit("b"), lit("cc")])),
            ("sequence", seq(vec![lit("b"), lit("b")])),
            ("optional", opt(lit("b"))),
        ];
        for (bn, body) in &la_bodies {
            for negative in [false, true] {
                for root_noskip in [false, true] {
                    for inc_noskip in [false, true] {
                        for shape in 0..3 {
                            let mk = |include: bool| -> Grammar {
                                let piece = if include { inc("Inc") } else { group(body.clone()) };
                                let la = if negative { not(piece) } else { and(piece) };
                                let root_body = match shape {
                                    0 => seq(vec![lit("c"), la, opt(field("f", "X")), opt(lit("c"))]),
                                    1 => seq(vec![star(seq(vec![la, field("f", "X")])), opt(lit("c"))]),
                                    _ => choice(vec![seq(vec![lit("c"), la, field("f", "X")]), seq(vec![lit("c"), opt(lit("c"))])]),
                                };
                                let mut rules = vec![
                                    Rule::normal("Root", dirs(root_noskip, &[Directive::Export, Directive::Position]), root_body),
                                    Rule::normal("X", vec![Directive::String, Directive::NoSkipWs], seq(vec![lit("b"), opt(lit("b"))])),
                                ];
                                if include {
                                    rules.push(Rule::normal("Inc", dirs(inc_noskip, &[]), body.clone()));
                                }
                                Grammar { rules }
                            };
                            let (g_inc, g_inl) = (mk(true), mk(false));
                            if !wf::well_formed(&g_inl) || !wf::well_formed(&g_inc) {
                                continue;
                            }
                            let grp = b.new_group();
                            let fam = format!("include-under-lookahead/{bn}");
                            if b.add_variant(grp, 0, &fam, g_inc, inputs.clone(), "include") {
                                b.add_variant(grp, 1, &fam, g_inl, inputs.clone(), "inlined");
                            }
                        }
                    }
                }
            }
        }
    }
    // includes inside the user-defined Whitespace rule (and inside a rule it calls): the included rules carry no
    // directive of their own - their bodies are pasted into the @no_skip_ws includer
    {
        let inputs = InputSpec::Strings { alphabet: vec!['b', ' ', '_', '#', '\n'], max_len: if tier == Tier::Quick { 5 } else { 6 } };
        let blank = choice(vec![lit(" "), lit("_")]);
        let comment = seq(vec![lit("#"), star(seq(vec![not(lit("\n")), rref("char")])), lit("\n")]);
        for ws_shape in 0..2 {
            for root_body in [seq(vec![star(field("f", "X")), Expr::Eoi]), seq(vec![field("f", "X"), opt(field("g", "X"))])] {
                let mk = |include: bool| -> Grammar {
                    let piece = |name: &str, body: &Expr| if include { inc(name) } else { group(body.clone()) };
                    let ws_body = if ws_shape == 0 {
                        star(choice(vec![piece("Blank", &blank), piece("Comment", &comment)]))
                    } else {
                        star(rref("WsItem"))
                    };
                    let mut rules = vec![
                        Rule::normal("Root", vec![Directive::Export, Directive::Position], root_body.clone()),
                        Rule::normal("X", vec![Directive::Position], seq(vec![lit("b"), opt(lit("b"))])),
                        Rule::normal("Whitespace", vec![Directive::NoSkipWs], ws_body),
                    ];
                    if ws_shape == 1 {
                        rules.push(Rule::normal("WsItem", vec![Directive::NoSkipWs], choice(vec![piece("Blank", &blank), piece("Comment", &comment)])));
                    }
                    if include {
                        rules.push(Rule::normal("Blank", vec![], blank.clone()));
                        rules.push(Rule::normal("Comment", vec![], comment.clone()));
                    }
                    Grammar { rules }
                };
                let grp = b.new_group();
                if b.add_variant(grp, 0, "include-in-whitespace", mk(true), inputs.clone(), "include") {
                    b.add_variant(grp, 1, "include-in-whitespace", mk(false), inputs.clone(), "inlined");
                }
            }
        }
    }
    b.cases
}

/// Inc -> Roo, Inc2 -> Ro, Other -> RootOther
fn rename_rules(g: &Grammar) -> Grammar {
    let nn = |n: &str| -> String {
        match n {
            "Inc" => "Roo".into(),
            "Inc2" => "Ro".into(),
            "Other" => "RootOther".into(),
            o => o.into(),
        }
    };
    let rules = g
        .rules
        .iter()
        .map(|r| {
            let def = match &r.def {
                RuleDef::Normal(b) => RuleDef::Normal(b.map(&|e| match e {
                    Expr::Ref { name, boxed, rule } => Some(Expr::Ref { name: name.clone(), boxed: *boxed, rule: nn(rule) }),
                    Expr::Include(r) => Some(Expr::Include(nn(r))),
                    _ => None,
                })),
                other => other.clone(),
            };
            Rule { name: nn(&r.name), directives: r.directives.clone(), def }
        })
        .collect();
    Grammar { rules }
}

// ------------------------------------------------------------------------------------------ C14

fn chk(name: &str) -> Directive {
    Directive::Check(vec!["hrt".into(), "user".into(), name.into()])
}

pub fn c14(tier: Tier) -> Vec<Case> {
    let mut b = Builder::new();
    let (k_ctx, len) = match tier {
        Tier::Quick => (2, 3),
        Tier::Thorough => (3, 4),
    };
    // é: a multi-byte character right after a hooked match
    let inputs = InputSpec::Strings { alphabet: vec!['b', 'c', ' ', 'é', 'â'], max_len: len };
    // rule kinds carrying checks / extern rules; `H` is the hooked rule
    let kinds = |ctxv: bool| -> Vec<(&'static str, Vec<Rule>)> {
        let c0 = if ctxv { "chkx0" } else { "chk0" };
        let c1 = if ctxv { "chkx1" } else { "chk1" };
        let mut v = vec![
            ("struct", vec![Rule::normal("H", vec![chk(c0)], seq(vec![field("x", "X"), opt(field("y", "X"))]))]),
            ("struct-two-checks", vec![Rule::normal("H", vec![chk(c0), Directive::Position, chk(c1)], seq(vec![field("x", "X"), opt(lit("c"))]))]),
            ("alias", vec![Rule::normal("H", vec![chk(c0)], seq(vec![opt(lit("c")), over("X")]))]),
            ("enum", vec![Rule::normal("H", vec![chk(c0)], choice(vec![over("X"), seq(vec![lit("c"), over("Y")])]))]),
            ("string", vec![Rule::normal("H", vec![chk(c0), Directive::String], seq(vec![lit("b"), opt(lit("c"))]))]),
            ("string-position", vec![Rule::normal("H", vec![Directive::String, chk(c0), Directive::Position], plus(range('b', 'c')))]),
            // a left-recursive rule whose growth the check can stop (every growth step is checked)
            ("leftrec", vec![Rule::normal("H", vec![chk(c0), Directive::Leftrec], choice(vec![seq(vec![bfield("l", "H"), lit("c")]), field("x", "X")]))]),
            ("leftrec-position", vec![Rule::normal("H", vec![Directive::Leftrec, Directive::Position, chk(c0)], choice(vec![seq(vec![bfield("l", "H"), field("y", "Y")]), field("x", "X")]))]),
        ];
        if !ctxv {
            v.push((
                "char",
                vec![Rule {
                    name: "H".into(),
                    directives: vec![chk("chkc0"), chk("chkc1")],
                    def: RuleDef::Char { parts: vec![CharPart::Range(LitChar::canon('b'), LitChar::canon('c'))], checks_before: 1 },
                }],
            ));
            // a checked @char rule used as an alternative of another @char rule (H itself carries no check)
            v.push((
                "char-nested",
                vec![
                    Rule::chr("H", vec![CharPart::Ident("Inner".into()), CharPart::Char(LitChar::canon(' '))]),
                    Rule {
                        name: "Inner".into(),
                        directives: vec![chk("chkc0")],
                        def: RuleDef::Char { parts: vec![CharPart::Range(LitChar::canon('b'), LitChar::canon('c'))], checks_before: 1 },
                    },
                ],
            ));
            // a checked class that matches every character (â = U+00E2 shares its low seven bits with b)
            v.push((
                "char-any",
                vec![Rule {
                    name: "H".into(),
                    directives: vec![chk("chkc0")],
                    def: RuleDef::Char { parts: vec![CharPart::Ident("char".into())], checks_before: 1 },
                }],
            ));
            v.push(("extern", vec![Rule::ext("H", "hrt::user::tok", None)]));
            v.push(("extern-typed", vec![Rule::ext("H", "hrt::user::tokt", Some("hrt::user::Tok"))]));
        } else {
            v.push(("extern-ctx", vec![Rule::ext("H", "hrt::user::tok_ctx", None)]));
        }
        v
    };
    let common = vec![
        Rule::normal("X", vec![Directive::String, Directive::NoSkipWs], seq(vec![lit("b"), opt(lit("b"))])),
        Rule::normal("Y", vec![Directive::String, Directive::NoSkipWs], lit("c")),
    ];
    // contexts: choice arm with a fallback, optional, closure, lookahead, sequence tail
    let mut ctxs: Vec<Expr> = contexts(&[lit("b")], &ALL_OPS, k_ctx);
    ctxs.push(choice(vec![hole(), field("z", "X")]));
    ctxs.push(seq(vec![opt(hole()), opt(field("z", "X"))]));
    for ctxv in [false, true] {
        for (kn, krules) in kinds(ctxv) {
            for c in &ctxs {
                // the hooked rule as a field, and unnamed
                for named in [true, false] {
                    let under_lookahead = {
                        let mut u = false;
                        c.visit(&mut |e| {
                            if let Expr::Not(x) | Expr::And(x) = e {
                                if count_holes(x) > 0 {
                                    u = true
                                }
                            }
                        });
                        u
                    };
                    if named && under_lookahead {
                        continue;
                    }
                    let h = if named { field("h", "H") } else { rref("H") };
                    for root_noskip in [false, true] {
                        let mut leaves = krules.clone();
                        leaves.extend(common.iter().cloned());
                        let g = root_grammar(dirs(root_noskip, &[Directive::Export, Directive::Position]), fill(c, &h), &leaves);
                        if !wf::well_formed(&g) {
                            continue;
                        }
                        let fam = format!("hooks/{kn}{}", if ctxv { "/ctx" } else { "" });
                        if b.add(&fam, g, inputs.clone()) {
                            b.last().user_ctx = ctxv;
                        }
                    }
                }
            }
        }
    }
    // stateful user functions (they count down a budget kept in the user context): a closure whose body matches
    // the empty string ends when the function says no; every yes is a match that must be collected
    {
        let tick = Rule::ext("Tick", "hrt::user::tick_ctx", None);
        let tk = Rule::normal("Tk", vec![chk("has_budget")], seq(vec![]));
        let tkb = Rule::normal("Tkb", vec![chk("has_budget")], opt(lit("b")));
        for (rule, name) in [(tick, "Tick"), (tk, "Tk"), (tkb, "Tkb")] {
            for body in [
                seq(vec![star(field("t", name)), opt(lit("b"))]),
                seq(vec![plus(field("t", name)), lit("c")]),
                seq(vec![lit("b"), star(rref(name)), opt(field("u", name))]),
                seq(vec![opt(field("t", name)), opt(field("u", name)), opt(field("v", name))]),
                star(seq(vec![field("t", name), opt(lit("c"))])),
            ] {
                for root_noskip in [false, true] {
                    let g = root_grammar(dirs(root_noskip, &[Directive::Export, Directive::Position]), body.clone(), &[rule.clone()]);
                    // not filtered by the well-formedness analysis: a closure over a rule that may match nothing is
                    // exactly the point, and the functions make it finite
                    if b.add("hooks-stateful/ctx", g, inputs.clone()) {
                        b.last().user_ctx = true;
                    }
                }
            }
        }
    }
    // the hooked rule tried again at the same offset (second choice arm, after a failed optional), with
    // and without @memoize: a cached attempt must answer what the functions answered
    let retry: Vec<Expr> = vec![
        choice(vec![seq(vec![hole(), lit("c")]), seq(vec![hole(), lit("b")]), hole()]),
        seq(vec![opt(seq(vec![hole(), lit("c"), lit("c")])), hole()]),
        seq(vec![and(hole()), hole(), opt(field("z", "X"))]),
        choice(vec![seq(vec![hole(), field("z", "X")]), seq(vec![opt(hole()), opt(lit("c"))])]),
    ];
    for ctxv in [false, true] {
        for (kn, krules) in kinds(ctxv) {
            let normal = matches!(krules[0].def, RuleDef::Normal(_));
            for memo in [false, true] {
                if memo && (!normal || krules[0].directives.contains(&Directive::Leftrec)) {
                    continue;
                }
                for c in &retry {
                    for named in [true, false] {
                        if named && matches!(c, Expr::Seq(v) if matches!(v[0], Expr::And(_))) {
                            continue;
                        }
                        let h = if named { field("h", "H") } else { rref("H") };
                        for root_noskip in [false, true] {
                            let mut leaves = krules.clone();
                            if memo {
                                leaves[0].directives.push(Directive::Memoize);
                            }
                            leaves.extend(common.iter().cloned());
                            let g = root_grammar(dirs(root_noskip, &[Directive::Export, Directive::Position]), fill(c, &h), &leaves);
                            if !wf::well_formed(&g) {
                                continue;
                            }
                            let fam = format!("hooks-retry/{kn}{}{}", if memo { "/memo" } else { "" }, if ctxv { "/ctx" } else { "" });
                            if b.add(&fam, g, inputs.clone()) {
                                b.last().user_ctx = ctxv;
                            }
                        }
                    }
                }
            }
        }
    }
    b.cases
}

// ------------------------------------------------------------------------------------------ C19

pub fn c19(tier: Tier) -> Vec<Case> {
    let mut b = Builder::new();
    // thinned C01 trees (every 4th), with struct leaves so that rule events exist
    for (i, c) in super::e1::c01(tier).into_iter().enumerate() {
        // every 4th grammar of each of the two families (skipping / not skipping roots alternate)
        if (i / 2) % 4 == 0 && c.family.starts_with("trees") {
            let inputs = match &c.inputs {
                InputSpec::Strings { alphabet, max_len } => InputSpec::Strings { alphabet: alphabet.clone(), max_len: (*max_len).min(4) },
                other => other.clone(),
            };
            b.add(&format!("trace/{}", c.family), c.grammar, inputs);
        }
    }
    for (g, names) in memo_bases(Tier::Quick) {
        for mask in [0u32, 3, 7] {
            b.add("trace/memo", with_memo(&g, &names, mask), memo_inputs(Tier::Quick));
        }
    }
    // user-defined Whitespace rules (they are ordinary traced rules, entered before every token)
    for (i, c) in super::e1::c08(Tier::Quick).into_iter().enumerate() {
        if c.family.ends_with("/user") && i % 7 == 0 {
            let inputs = InputSpec::Strings { alphabet: vec!['b', 'c', '_', '#', '\n'], max_len: 3 };
            if b.add("trace/user-whitespace", c.grammar, inputs) {
                b.last().note = "indented-all".into();
            }
        }
    }
    // deep nesting: many rule entries open at once
    for g in nested_grammars() {
        if b.add("trace/deep", g, InputSpec::List(nested_inputs(&[0, 1, 2, 7, 31, 62, 63, 64, 65, 66, 90, 130, 200]))) {
            b.last().note = "indented-all".into();
        }
    }
    // multi-byte characters of every width at every distance 40..=56 bytes after a rule entry (the trace prints a
    // bounded snippet of the remaining input at every entry and successful exit)
    {
        let mut inputs: Vec<String> = Vec::new();
        for k in 40..=56usize {
            for x in ['é', '香', '😀', '\u{a0}'] {
                inputs.push(format!("{}{x}{}", "a".repeat(k), "a".repeat(12)));
                inputs.push(format!("{}{x}{x}{}", "a".repeat(k), "b".repeat(60)));
            }
        }
        let g = Grammar {
            rules: vec![
                Rule::normal("Root", vec![Directive::Export, Directive::NoSkipWs], seq(vec![star(field("c", "C")), Expr::Eoi])),
                Rule::normal("C", vec![Directive::NoSkipWs], choice(vec![field("k", "K"), field("c", "char")])),
                Rule::normal("K", vec![Directive::NoSkipWs, Directive::String], seq(vec![lit("b"), lit("b"), lit("b")])),
            ],
        };
        if b.add("trace/long-multibyte", g, InputSpec::List(inputs)) {
            b.last().note = "indented-all".into();
        }
    }
    // long traces: tens of thousands of trace lines in one parse, with failing alternatives (one-line events),
    // cache hits and left-recursive growth in between
    {
        let num = Rule::normal("Number", vec![Directive::String, Directive::NoSkipWs], plus(range('0', '9')));
        let word = Rule::normal("Word", vec![Directive::String, Directive::NoSkipWs], plus(range('a', 'z')));
        let item = |dirs: Vec<Directive>| Rule::normal("Item", dirs, choice(vec![over("Number"), over("Word")]));
        let mut inputs: Vec<String> = Vec::new();
        let mut counts = super::e1::long_counts(Tier::Quick);
        counts.extend([454, 455, 908, 909, 910, 2047, 2048]);
        if tier == Tier::Thorough {
            counts.extend((1..=40).map(|k| k * 101));
        }
        for n in counts {
            inputs.push("word ".repeat(n));
            inputs.push("12 ".repeat(n));
            inputs.push(format!("{}!", "w 1 ".repeat(n / 2)));
        }
        let list = |root_dirs: Vec<Directive>| Rule::normal("Root", root_dirs, seq(vec![star(field("items", "Item")), Expr::Eoi]));
        let gs = vec![
            Grammar { rules: vec![list(vec![Directive::Export]), item(vec![]), num.clone(), word.clone()] },
            Grammar { rules: vec![list(vec![Directive::Export]), item(vec![Directive::Memoize]), num.clone(), word.clone()] },
            Grammar {
                rules: vec![
                    Rule::normal("Root", vec![Directive::Export], seq(vec![field("l", "L"), Expr::Eoi])),
                    Rule::normal("L", vec![Directive::Leftrec], choice(vec![seq(vec![bfield("head", "L"), field("last", "Item")]), field("last", "Item")])),
                    item(vec![Directive::Memoize]),
                    num.clone(),
                    word.clone(),
                ],
            },
        ];
        for (gi, g) in gs.into_iter().enumerate() {
            // the left-recursive grammar clones a tree that deepens with every item: quadratic, keep it shorter
            let inputs: Vec<String> = if gi == 2 { inputs.iter().filter(|s| s.len() <= 2600).cloned().collect() } else { inputs.clone() };
            if b.add("trace/long", g, InputSpec::List(inputs.clone())) {
                b.last().note = "indented-all".into();
            }
        }
    }
    // many rule entries in a row at one offset (no progress in between): choices of 254..300 alternatives that each enter
    // the same nullable rule before they fail on a literal; only the last alternative matches
    for n in [254usize, 255, 256, 257, 300] {
        let alts: Vec<Expr> = (0..n).map(|i| seq(vec![rref("E"), lit(&format!("k{i};"))])).collect();
        let g = Grammar {
            rules: vec![
                Rule::normal("Root", vec![Directive::Export, Directive::NoSkipWs], choice(alts)),
                Rule::normal("E", vec![Directive::NoSkipWs], opt(lit("q"))),
            ],
        };
        let inputs = vec![format!("k{};", n - 1), "k0;".to_string(), "z".to_string(), format!("qk{};", n - 1), String::new()];
        if b.add("trace/many-entries-at-one-offset", g, InputSpec::List(inputs)) {
            b.last().note = "indented-all".into();
        }
    }
    for c in c07(Tier::Quick) {
        let inputs = match &c.inputs {
            InputSpec::Strings { alphabet, max_len } => InputSpec::Strings { alphabet: alphabet.clone(), max_len: (*max_len).min(4) },
            other => other.clone(),
        };
        if b.add(&format!("trace/{}", c.family), c.grammar.clone(), inputs) {
            b.last().note = c.note.clone();
        }
    }
    for (i, c) in c14(Tier::Quick).into_iter().enumerate() {
        if c.user_ctx || i % 3 != 0 {
            continue;
        }
        // checks that fail: a deterministic refusing check instead of the table-driven one
        let mut g = c.grammar.clone();
        for r in &mut g.rules {
            for d in &mut r.directives {
                if let Directive::Check(p) = d {
                    if p.last().map(|s| s == "chk0").unwrap_or(false) {
                        *p = vec!["hrt".into(), "user".into(), "chk_nob".into()];
                    }
                }
            }
        }
        if b.add(&format!("trace/{}", c.family), g, c.inputs.clone()) {
            // under parse_with_trace every check / extern function of these grammars first runs a traced parse itself
            b.last().note = "indented-all nested-traced".into();
        }
    }
    b.cases
}

/// recursive grammars whose nesting depth follows the input
pub fn nested_grammars() -> Vec<Grammar> {
    let leaf = Rule::normal("Leaf", vec![Directive::NoSkipWs], lit("x"));
    vec![
        Grammar {
            rules: vec![
                Rule::normal("Root", vec![Directive::Export, Directive::NoSkipWs], field("n", "Nested")),
                Rule::normal("Nested", vec![Directive::NoSkipWs], choice(vec![seq(vec![lit("("), bfield("inner", "Nested"), lit(")")]), field("leaf", "Leaf")])),
                leaf.clone(),
            ],
        },
        Grammar {
            rules: vec![
                Rule::normal("Root", vec![Directive::Export, Directive::NoSkipWs], field("n", "Nested")),
                Rule::normal(
                    "Nested",
                    vec![Directive::NoSkipWs, Directive::Memoize],
                    choice(vec![seq(vec![lit("("), bfield("inner", "Nested"), lit("]")]), seq(vec![lit("("), bfield("inner", "Nested"), lit(")")]), field("leaf", "Leaf")]),
                ),
                leaf,
            ],
        },
    ]
}

pub fn nested_inputs(depths: &[usize]) -> Vec<String> {
    let mut v = vec!["x".to_string(), "(x".to_string(), "y".to_string()];
    for d in depths {
        v.push(format!("{}x{}", "(".repeat(*d), ")".repeat(*d)));
    }
    v
}

// ------------------------------------------------------------------------------------------ C20

pub fn c20(tier: Tier) -> Vec<Case> {
    let mut b = Builder::new();
    let n = if tier == Tier::Quick { 20 } else { 40 };
    let mut k = 0;
    // memoized first (every rule memoized), then left-recursive
    let bases = memo_bases(Tier::Quick);
    let step = (bases.len() / (n / 2)).max(1);
    for (g, names) in bases.into_iter().step_by(step) {
        if k >= n / 2 {
            break;
        }
        b.add("pure/memo", with_memo(&g, &names, 7), InputSpec::Strings { alphabet: vec!['b', 'c', 'x'], max_len: 3 });
        k += 1;
    }
    // skipping rules and whitespace in the inputs (hidden state in whitespace handling)
    for (g, names) in memo_bases_mixed_skip(Tier::Quick).into_iter().step_by(13).take(n / 4) {
        b.add("pure/memo-skip", with_memo(&g, &names, 7), InputSpec::Strings { alphabet: vec!['b', 'x', ' '], max_len: 3 });
    }
    // extern rules reached at offsets > 0, with positions everywhere (the extern functions are scheduling points)
    for body in [seq(vec![lit("b"), field("t", "T"), opt(field("f", "X"))]), seq(vec![star(field("f", "X")), field("t", "T"), opt(lit("b"))])] {
        let g = Grammar {
            rules: vec![
                Rule::normal("Root", vec![Directive::Export, Directive::NoSkipWs, Directive::Position], body),
                Rule::normal("X", vec![Directive::NoSkipWs, Directive::Position], seq(vec![lit("c"), opt(field("u", "T"))])),
                Rule::ext("T", "hrt::user::tok", None),
            ],
        };
        b.add("pure/extern", g, InputSpec::Strings { alphabet: vec!['b', 'c', 'x'], max_len: 3 });
    }
    // a parse that nests deeper than any plausible fixed limit, before and after shallow ones
    for g in nested_grammars().into_iter().take(1) {
        b.add("pure/deep-nesting", g, InputSpec::List(nested_inputs(&[3, 300, 1, 270])));
    }
    let lr = c07(Tier::Quick);
    let step = (lr.len() / (n / 2)).max(1);
    let mut k2 = 0;
    for c in lr.into_iter().step_by(step) {
        if k2 >= n / 2 {
            break;
        }
        let alphabet = match &c.inputs {
            InputSpec::Strings { alphabet, .. } => alphabet.clone(),
            _ => vec!['n'],
        };
        if b.add("pure/leftrec", c.grammar.clone(), InputSpec::Strings { alphabet: alphabet.into_iter().take(3).collect(), max_len: 3 }) {
            b.last().note = c.note.clone();
        }
        k2 += 1;
    }
    // memoized rules that are rarely hit, where a hit is visible (error detail; tree when the memoized rule
    // sits on a left-recursive cycle): short probes before and after long hit-free inputs
    {
        let id = Rule::normal("Id", vec![Directive::String, Directive::NoSkipWs], plus(range('b', 'c')));
        let g = Grammar {
            rules: vec![
                Rule::normal("Root", vec![Directive::Export], seq(vec![star(seq(vec![field("d", "Decl"), lit(";")])), Expr::Eoi])),
                Rule::normal(
                    "Decl",
                    vec![],
                    seq(vec![opt(seq(vec![field("outer", "T"), lit("<"), field("arg", "T"), lit(">")])), field("name", "T"), lit("("), lit(")")]),
                ),
                Rule::normal("T", vec![Directive::Memoize], field("name", "Id")),
                id,
            ],
        };
        let inputs: Vec<String> = vec![
            "".into(),
            "b();".into(),
            "b<c(".into(),
            "b<c>b();c<b(".into(),
            "b<c>b();".repeat(120),
            "b<c>c();".into(),
            format!("{}b<c(", "c();".repeat(300)),
        ];
        b.add("pure/memo-rare-hit", g, InputSpec::List(inputs));
        let g2 = Grammar {
            rules: vec![
                Rule::normal("Root", vec![Directive::Export], seq(vec![star(choice(vec![field("items", "E"), field("items", "Op"), field("items", "Junk")])), Expr::Eoi])),
                Rule::normal("E", vec![Directive::Leftrec], choice(vec![over("Add"), over("Num")])),
                Rule::normal("Add", vec![Directive::Memoize], seq(vec![bfield("left", "E"), lit("+"), field("right", "Num")])),
                Rule::normal("Num", vec![Directive::String, Directive::NoSkipWs], plus(range('0', '9'))),
                Rule::normal("Op", vec![Directive::String], lit("+")),
                Rule::normal("Junk", vec![Directive::String], lit("#")),
            ],
        };
        let inputs2: Vec<String> = vec!["1+2".into(), "1".into(), "#".repeat(400), "1+2+3#".into(), "+1".into(), format!("{}1+2", "#".repeat(300))];
        // what a stale memo entry on a left-recursive cycle does is outside the reference model (and outside C05):
        // this grammar is compared with the fresh-thread and fresh-process baselines only
        if b.add("pure/memo-rare-hit", g2, InputSpec::List(inputs2)) {
            b.last().note = "no-reference".into();
        }
    }
    // a memoized rule stored at thousands of positions in one parse, then asked again at the first one by a parse
    // that fails: which entries a bounded table keeps must not show in the result
    {
        let g = Grammar {
            rules: vec![
                Rule::normal("Root", vec![Directive::Export, Directive::NoSkipWs], seq(vec![choice(vec![field("long", "Long"), field("short", "Short")]), Expr::Eoi])),
                Rule::normal("Long", vec![Directive::NoSkipWs], seq(vec![star(field("items", "Item")), lit(".")])),
                Rule::normal("Short", vec![Directive::NoSkipWs], field("first", "Item")),
                Rule::normal("Item", vec![Directive::NoSkipWs, Directive::Memoize], lit("m")),
            ],
        };
        let inputs: Vec<String> = vec!["m!".into(), "m".into(), format!("{}!", "m".repeat(7000)), format!("{}.", "m".repeat(5000)), format!("{}!", "m".repeat(4097)), format!("{}!", "m".repeat(4095))];
        b.add("pure/memo-long", g, InputSpec::List(inputs));
    }
    // a case-insensitive literal and inputs that are prefixes of one another: in the reused-buffer mode the bytes
    // behind the end of the input are those of the previous, longer input
    {
        let g = Grammar {
            rules: vec![Rule::normal(
                "Root",
                vec![Directive::Export, Directive::NoSkipWs],
                choice(vec![seq(vec![ilit("bcx"), opt(lit("b"))]), seq(vec![lit("b"), opt(ilit("cb")), opt(lit("c"))])]),
            )],
        };
        let inputs: Vec<String> = ["bcx", "bc", "b", "BCX", "bcxb", "bcb", "BC", "bC", ""].iter().map(|s| s.to_string()).collect();
        b.add("pure/insensitive-literal", g, InputSpec::List(inputs));
    }
    // runs of blanks of every length around the machine word sizes, with one near-miss character (vertical tab) at every
    // place in the run: parsed from a buffer at every start address modulo 16 (history_case: placements), because what is
    // skipped is a function of the text, not of where the text lies in memory
    {
        let g = Grammar {
            rules: vec![
                Rule::normal("Root", vec![Directive::Export], seq(vec![star(field("words", "Word")), Expr::Eoi])),
                Rule::normal("Word", vec![Directive::String, Directive::NoSkipWs], plus(range('a', 'z'))),
            ],
        };
        let mut inputs: Vec<String> = Vec::new();
        let (lo, hi) = if tier == Tier::Quick { (6usize, 17usize) } else { (0usize, 34usize) };
        for len in lo..=hi {
            inputs.push(format!("ab{}cd", " ".repeat(len)));
            for at in 0..len {
                for near in ['\u{b}', '\u{0}'] {
                    if near == '\u{0}' && tier == Tier::Quick {
                        continue;
                    }
                    let mut run: Vec<char> = vec![' '; len];
                    run[at] = near;
                    inputs.push(format!("ab{}cd", run.iter().collect::<String>()));
                }
            }
        }
        if tier == Tier::Thorough {
            for len in 1..=10usize {
                for bits in 0..(1u32 << len) {
                    let run: String = (0..len).map(|i| if bits & (1 << i) != 0 { '\u{b}' } else { '\t' }).collect();
                    inputs.push(format!("ab{run}cd"));
                }
            }
        }
        if b.add("pure/whitespace-runs", g, InputSpec::List(inputs)) {
            b.last().note = "placement-only".into();
        }
    }
    // a grammar with a memoized rule whose cache hit shows in the reported error, and a rule with a check function
    // (a scheduling point also for a parse that runs through `parse_with_trace`)
    {
        let g = Grammar {
            rules: vec![
                Rule::normal(
                    "Root",
                    vec![Directive::Export, Directive::NoSkipWs],
                    choice(vec![seq(vec![field("m", "M"), lit("x")]), seq(vec![opt(seq(vec![lit("b"), lit("c"), lit("c"), lit("Q")])), field("m", "M"), lit("y")]), field("h", "H")]),
                ),
                Rule::normal("M", vec![Directive::NoSkipWs, Directive::Memoize], lit("b")),
                Rule::normal("H", vec![Directive::NoSkipWs, chk("chk0")], seq(vec![lit("c"), opt(field("m", "M"))])),
            ],
        };
        let inputs: Vec<String> = ["bccd", "cb", "c", "by", "bx"].iter().map(|s| s.to_string()).collect();
        b.add("pure/traced-neighbour", g, InputSpec::List(inputs));
    }
    // a left-recursive rule that grows several times (longer parses for the preemption-bounded schedule exploration)
    {
        let g = Grammar {
            rules: vec![
                Rule::normal("Root", vec![Directive::Export, Directive::NoSkipWs], seq(vec![field("e", "E"), Expr::Eoi])),
                Rule::normal("E", vec![Directive::Leftrec, Directive::NoSkipWs], choice(vec![seq(vec![bfield("l", "E"), lit("+"), field("r", "N")]), field("n", "N")])),
                n_rule(),
            ],
        };
        let inputs: Vec<String> = ["n", "n+n", "n+n+n", "n+n+n+n", "n+", "+n", "nn"].iter().map(|s| s.to_string()).collect();
        b.add("pure/leftrec-long", g, InputSpec::List(inputs));
    }
    // a checked @char rule fed characters that agree in their low byte and differ in the check's verdict
    {
        let g = Grammar {
            rules: vec![
                Rule::normal("Root", vec![Directive::Export, Directive::NoSkipWs], seq(vec![star(field("c", "L")), Expr::Eoi])),
                Rule {
                    name: "L".into(),
                    directives: vec![chk("chkc_lower")],
                    def: RuleDef::Char { parts: vec![CharPart::Ident("char".into())], checks_before: 1 },
                },
            ],
        };
        let inputs: Vec<String> = ["p", "\u{170}", "b", "\u{162}", "è", "\u{1e8}", "pp", "\u{171}", "p\u{10070}", "\u{10070}"].iter().map(|s| s.to_string()).collect();
        b.add("pure/char-check", g, InputSpec::List(inputs));
    }
    let _ = prune;
    b.cases
}
