//! Deterministic, simplest-first enumerators: expression trees, one-hole contexts, strings.

use crate::ast::*;

#[derive(Clone, Copy, Debug, PartialEq, Eq)]
pub enum Op {
    Opt,
    Star,
    Plus,
    Not,
    And,
    Group,
    Seq2,
    Choice2,
    Seq3,
    Choice3,
}

pub const ALL_OPS: [Op; 9] = [Op::Opt, Op::Star, Op::Plus, Op::Not, Op::And, Op::Seq2, Op::Choice2, Op::Seq3, Op::Choice3];
pub const NO_LOOKAHEAD_OPS: [Op; 7] = [Op::Opt, Op::Star, Op::Plus, Op::Seq2, Op::Choice2, Op::Seq3, Op::Choice3];
pub const BINARY_OPS: [Op; 7] = [Op::Opt, Op::Star, Op::Plus, Op::Not, Op::And, Op::Seq2, Op::Choice2];

fn unary(op: Op, e: Expr) -> Expr {
    match op {
        Op::Opt => opt(e),
        Op::Star => star(e),
        Op::Plus => plus(e),
        Op::Not => not(e),
        Op::And => and(e),
        Op::Group => group(e),
        _ => unreachable!(),
    }
}

/// all expression trees with exactly n nodes (n = 1..=k), grouped by size: result[n-1]
pub fn trees_by_size(atoms: &[Expr], ops: &[Op], k: usize) -> Vec<Vec<Expr>> {
    let mut by: Vec<Vec<Expr>> = Vec::new();
    for n in 1..=k {
        let mut cur: Vec<Expr> = Vec::new();
        if n == 1 {
            cur.extend(atoms.iter().cloned());
        } else {
            for op in ops {
                match op {
                    Op::Opt | Op::Star | Op::Plus | Op::Not | Op::And | Op::Group => {
                        for c in &by[n - 2] {
                            cur.push(unary(*op, c.clone()));
                        }
                    }
                    Op::Seq2 | Op::Choice2 => {
                        for a in 1..=(n - 2) {
                            let b = n - 1 - a;
                            if b < 1 {
                                continue;
                            }
                            for x in &by[a - 1] {
                                for y in &by[b - 1] {
                                    let v = vec![x.clone(), y.clone()];
                                    cur.push(if *op == Op::Seq2 { seq(v) } else { choice(v) });
                                }
                            }
                        }
                    }
                    Op::Seq3 | Op::Choice3 => {
                        if n < 4 {
                            continue;
                        }
                        for a in 1..=(n - 3) {
                            for b in 1..=(n - 2 - a) {
                                let c = n - 1 - a - b;
                                if c < 1 {
                                    continue;
                                }
                                for x in &by[a - 1] {
                                    for y in &by[b - 1] {
                                        for z in &by[c - 1] {
                                            let v = vec![x.clone(), y.clone(), z.clone()];
                                            cur.push(if *op == Op::Seq3 { seq(v) } else { choice(v) });
                                        }
                                    }
                                }
                            }
                        }
                    }
                }
            }
        }
        by.push(cur);
    }
    by
}

pub fn trees(atoms: &[Expr], ops: &[Op], k: usize) -> Vec<Expr> {
    trees_by_size(atoms, ops, k).into_iter().flatten().collect()
}

/// The hole of a one-hole context.
pub fn hole() -> Expr {
    Expr::Include("__HOLE__".into())
}

pub fn is_hole(e: &Expr) -> bool {
    matches!(e, Expr::Include(n) if n == "__HOLE__")
}

pub fn count_holes(e: &Expr) -> usize {
    let mut n = 0;
    e.visit(&mut |x| {
        if is_hole(x) {
            n += 1
        }
    });
    n
}

/// all trees with <= k nodes over `atoms` + the hole, containing the hole exactly once
pub fn contexts(atoms: &[Expr], ops: &[Op], k: usize) -> Vec<Expr> {
    let mut a: Vec<Expr> = vec![hole()];
    a.extend(atoms.iter().cloned());
    trees(&a, ops, k).into_iter().filter(|t| count_holes(t) == 1).collect()
}

pub fn fill(ctx: &Expr, with: &Expr) -> Expr {
    ctx.map(&|e| if is_hole(e) { Some(with.clone()) } else { None })
}

/// all strings over `alphabet` with length (in characters) 0..=max_len, shortest first
pub fn strings(alphabet: &[char], max_len: usize) -> Vec<String> {
    let mut out = vec![String::new()];
    let mut level = vec![String::new()];
    for _ in 0..max_len {
        let mut next = Vec::with_capacity(level.len() * alphabet.len());
        for s in &level {
            for c in alphabet {
                let mut t = s.clone();
                t.push(*c);
                next.push(t);
            }
        }
        out.extend(next.iter().cloned());
        level = next;
    }
    out
}

/// all strings over string pieces
pub fn piece_strings(pieces: &[&str], max_len: usize) -> Vec<String> {
    let mut out = vec![String::new()];
    let mut level = vec![String::new()];
    for _ in 0..max_len {
        let mut next = Vec::with_capacity(level.len() * pieces.len());
        for s in &level {
            for c in pieces {
                let mut t = s.clone();
                t.push_str(c);
                next.push(t);
            }
        }
        out.extend(next.iter().cloned());
        level = next;
    }
    out
}

/// all subsets of 0..n as bit masks, in increasing popcount order
pub fn subsets(n: usize) -> Vec<u32> {
    let mut v: Vec<u32> = (0..(1u32 << n)).collect();
    v.sort_by_key(|m| (m.count_ones(), *m));
    v
}

/// FNV-1a, for stable ids independent of std's hasher
pub fn fnv(s: &str) -> u64 {
    let mut h: u64 = 0xcbf29ce484222325;
    for b in s.as_bytes() {
        h ^= *b as u64;
        h = h.wrapping_mul(0x100000001b3);
    }
    h
}
