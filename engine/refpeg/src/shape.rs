//! Type-shape calculator, written from doc/syntax.md ("Fields", "Override", "Boxing", "Directives"),
//! not from the code generator.

use crate::ast::*;
use std::collections::BTreeMap;

#[derive(Clone, Copy, Debug, PartialEq, Eq, PartialOrd, Ord)]
pub enum Arity {
    Absent,
    One,
    Optional,
    Multiple,
}

pub fn arity_of(g: &Grammar, e: &Expr, field: &str) -> Arity {
    arity_rec(g, e, field, &mut Vec::new())
}

fn arity_rec(g: &Grammar, e: &Expr, field: &str, stack: &mut Vec<String>) -> Arity {
    match e {
        Expr::Ref { name, .. } => {
            let is = match name {
                FieldName::None => false,
                FieldName::Named(n) => n == field,
                FieldName::Override => field == "_override",
            };
            if is {
                Arity::One
            } else {
                Arity::Absent
            }
        }
        Expr::Include(r) => {
            if stack.contains(r) {
                return Arity::Absent;
            }
            match g.rule(r) {
                Some(Rule { def: RuleDef::Normal(b), .. }) => {
                    stack.push(r.clone());
                    let a = arity_rec(g, b, field, stack);
                    stack.pop();
                    a
                }
                _ => Arity::Absent,
            }
        }
        Expr::Seq(v) => {
            let ars: Vec<Arity> = v.iter().map(|p| arity_rec(g, p, field, stack)).filter(|a| *a != Arity::Absent).collect();
            match ars.len() {
                0 => Arity::Absent,
                1 => ars[0],
                _ => Arity::Multiple,
            }
        }
        Expr::Choice(v) => {
            let ars: Vec<Arity> = v.iter().map(|p| arity_rec(g, p, field, stack)).collect();
            let max = *ars.iter().max().unwrap_or(&Arity::Absent);
            if max == Arity::Absent {
                Arity::Absent
            } else if ars.iter().any(|a| *a == Arity::Absent) {
                max.max(Arity::Optional)
            } else {
                max
            }
        }
        Expr::Opt(b) => match arity_rec(g, b, field, stack) {
            Arity::One => Arity::Optional,
            a => a,
        },
        Expr::Star(b) | Expr::Plus(b) => match arity_rec(g, b, field, stack) {
            Arity::Absent => Arity::Absent,
            _ => Arity::Multiple,
        },
        Expr::Not(_) | Expr::And(_) => Arity::Absent,
        Expr::Group(b) => arity_rec(g, b, field, stack),
        Expr::Lit { .. } | Expr::Range { .. } | Expr::Eoi => Arity::Absent,
    }
}

/// (field name in declaration order) -> (type name -> boxed), looking through includes
pub fn fields_in_order(g: &Grammar, e: &Expr) -> Vec<(String, BTreeMap<String, bool>)> {
    let mut out: Vec<(String, BTreeMap<String, bool>)> = Vec::new();
    collect(g, e, &mut out, &mut Vec::new());
    out
}

fn collect(g: &Grammar, e: &Expr, out: &mut Vec<(String, BTreeMap<String, bool>)>, stack: &mut Vec<String>) {
    match e {
        Expr::Ref { name, boxed, rule } => {
            let n = match name {
                FieldName::None => return,
                FieldName::Named(n) => n.clone(),
                FieldName::Override => "_override".to_string(),
            };
            let idx = match out.iter().position(|(f, _)| *f == n) {
                Some(i) => i,
                None => {
                    out.push((n, BTreeMap::new()));
                    out.len() - 1
                }
            };
            let ent = out[idx].1.entry(rule.clone()).or_insert(false);
            *ent = *ent || *boxed;
        }
        Expr::Include(r) => {
            if stack.contains(r) {
                return;
            }
            if let Some(Rule { def: RuleDef::Normal(b), .. }) = g.rule(r) {
                stack.push(r.clone());
                collect(g, b, out, stack);
                stack.pop();
            }
        }
        _ => {
            for c in e.children() {
                collect(g, c, out, stack);
            }
        }
    }
}

// ------------------------------------------------------------------------------------------------
// Exact-type assertions (C03): Rust code that compiles only if the generated types are the ones the
// documented mapping prescribes. rustc is the checker.

const RAW_KEYWORDS: [&str; 47] = [
    "as", "break", "const", "continue", "else", "enum", "extern", "false", "fn", "for", "if", "impl", "in", "let", "loop", "match", "mod", "move",
    "mut", "pub", "ref", "return", "static", "struct", "trait", "true", "type", "unsafe", "use", "where", "while", "async", "await", "dyn",
    "abstract", "become", "box", "do", "final", "macro", "override", "priv", "typeof", "unsized", "virtual", "yield", "try",
];

pub fn rust_ident(name: &str) -> String {
    if RAW_KEYWORDS.contains(&name) {
        format!("r#{name}")
    } else {
        name.to_string()
    }
}

fn type_name(g: &Grammar, rule: &str) -> String {
    if rule == "char" {
        return "char".into();
    }
    let _ = g;
    rust_ident(rule)
}

/// the documented type of a field of `owner` (struct rule or override rule)
fn field_type(g: &Grammar, owner: &str, body: &Expr, field: &str, types: &BTreeMap<String, bool>) -> String {
    let inner = if types.len() > 1 {
        if field == "_override" {
            rust_ident(owner)
        } else {
            format!("{owner}_{field}")
        }
    } else {
        let (t, boxed) = types.iter().next().unwrap();
        let tn = type_name(g, t);
        if *boxed {
            format!("Box<{tn}>")
        } else {
            tn
        }
    };
    match arity_of(g, body, field) {
        Arity::One | Arity::Absent => inner,
        Arity::Optional => format!("Option<{inner}>"),
        Arity::Multiple => format!("Vec<{inner}>"),
    }
}

fn enum_assertion(g: &Grammar, enum_name: &str, types: &BTreeMap<String, bool>, out: &mut String) {
    out.push_str(&format!("fn _assert_enum_{}(v: {}) {{ match v {{ ", enum_name.replace("r#", ""), enum_name));
    for (t, boxed) in types {
        let tn = type_name(g, t);
        let payload = if *boxed { format!("Box<{tn}>") } else { tn.clone() };
        out.push_str(&format!("{}::{}(x) => {{ let _: {} = x; }} ", enum_name, rust_ident(t), payload));
    }
    out.push_str("} }\n");
}

pub fn assertions(g: &Grammar, derives: &Option<Vec<String>>) -> String {
    let mut out = String::new();
    out.push_str("fn _is_position<T: peginator::PegPosition>() {}\nfn _is_parser<T: peginator::PegParser>() {}\n");
    let dset: Vec<String> = derives.clone().unwrap_or_else(|| vec!["Debug".into(), "Clone".into()]);
    let bounds: Vec<&str> = dset
        .iter()
        .map(|d| match d.as_str() {
            "Debug" => "std::fmt::Debug",
            "Clone" => "Clone",
            "PartialEq" => "PartialEq",
            "Eq" => "Eq",
            other => panic!("unknown derive {other}"),
        })
        .collect();
    if !bounds.is_empty() {
        out.push_str(&format!("fn _has_derives<T: {}>() {{}}\n", bounds.join(" + ")));
    }
    for r in &g.rules {
        let rn = rust_ident(&r.name);
        let flat = r.name.clone();
        let flags = r.flags();
        match g.kind(r) {
            RuleKind::Char => out.push_str(&format!("fn _assert_{flat}(v: {rn}) {{ let _: char = v; }}\n")),
            RuleKind::Extern => {
                if let RuleDef::Extern { ret, .. } = &r.def {
                    let t = match ret {
                        None => "String".to_string(),
                        Some(p) => p.iter().map(|s| rust_ident(s)).collect::<Vec<_>>().join("::"),
                    };
                    out.push_str(&format!("fn _assert_{flat}(v: {rn}) {{ let _: {t} = v; }}\n"));
                }
            }
            RuleKind::Str => {
                if flags.position {
                    out.push_str(&format!(
                        "fn _assert_{flat}(v: {rn}) {{ let {rn} {{ string, position }} = v; let _: String = string; let _: std::ops::Range<usize> = position; }}\n"
                    ));
                    out.push_str(&format!("fn _assert_pos_{flat}() {{ _is_position::<{rn}>(); }}\n"));
                    if !bounds.is_empty() {
                        out.push_str(&format!("fn _assert_derives_{flat}() {{ _has_derives::<{rn}>(); }}\n"));
                    }
                } else {
                    out.push_str(&format!("fn _assert_{flat}(v: {rn}) {{ let _: String = v; }}\n"));
                }
            }
            RuleKind::Alias => {
                let body = r.body().unwrap();
                let fields = fields_in_order(g, body);
                let (_, types) = &fields[0];
                let t = field_type(g, &r.name, body, "_override", types);
                out.push_str(&format!("fn _assert_{flat}(v: {rn}) {{ let _: {t} = v; }}\n"));
            }
            RuleKind::Enum => {
                let body = r.body().unwrap();
                let fields = fields_in_order(g, body);
                let (_, types) = &fields[0];
                enum_assertion(g, &rn, types, &mut out);
                if flags.position {
                    out.push_str(&format!("fn _assert_pos_{flat}() {{ _is_position::<{rn}>(); }}\n"));
                }
                if !bounds.is_empty() {
                    out.push_str(&format!("fn _assert_derives_{flat}() {{ _has_derives::<{rn}>(); }}\n"));
                }
            }
            RuleKind::Struct => {
                let body = r.body().unwrap();
                let fields = fields_in_order(g, body);
                if fields.is_empty() && !flags.position {
                    // unit struct
                    out.push_str(&format!("fn _assert_{flat}(v: {rn}) {{ let {rn} = v; }}\n"));
                } else {
                    let mut pat: Vec<String> = fields.iter().map(|(f, _)| rust_ident(f)).collect();
                    if flags.position {
                        pat.push("position".into());
                    }
                    out.push_str(&format!("fn _assert_{flat}(v: {rn}) {{ let {rn} {{ {} }} = v; ", pat.join(", ")));
                    for (f, types) in &fields {
                        let t = field_type(g, &r.name, body, f, types);
                        out.push_str(&format!("let _: {t} = {}; ", rust_ident(f)));
                    }
                    if flags.position {
                        out.push_str("let _: std::ops::Range<usize> = position; ");
                    }
                    out.push_str("}\n");
                    for (f, types) in &fields {
                        if types.len() > 1 {
                            enum_assertion(g, &format!("{}_{}", r.name, f), types, &mut out);
                            if !bounds.is_empty() {
                                out.push_str(&format!("fn _assert_derives_{flat}_{f}() {{ _has_derives::<{}_{}>(); }}\n", r.name, f));
                            }
                        }
                    }
                }
                if flags.position {
                    out.push_str(&format!("fn _assert_pos_{flat}() {{ _is_position::<{rn}>(); }}\n"));
                }
                if !bounds.is_empty() {
                    out.push_str(&format!("fn _assert_derives_{flat}() {{ _has_derives::<{rn}>(); }}\n"));
                }
            }
        }
        if flags.export {
            out.push_str(&format!("fn _assert_parser_{flat}() {{ _is_parser::<{rn}>(); }}\n"));
        }
    }
    out
}
