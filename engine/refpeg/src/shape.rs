//! Type-shape calculator, written from doc/syntax.md ("Fields", "Override", "Boxing", "Directives"),
//! not from the code generator.

use crate::ast::*;
use std::collections::BTreeMap;

#[derive(Clone, Copy, Debug, PartialEq, Eq, PartialOrd, Ord)]
pub enum Arity {
    Absent,
    One,
    Optional,
    Multiple,
}

pub fn arity_of(g: &Grammar, e: &Expr, field: &str) -> Arity {
    arity_rec(g, e, field, &mut Vec::new())
}

fn arity_rec(g: &Grammar, e: &Expr, field: &str, stack: &mut Vec<String>) -> Arity {
    match e {
        Expr::Ref { name, .. } => {
            let is = match name {
                FieldName::None => false,
                FieldName::Named(n) => n == field,
                FieldName::Override => field == "_override",
            };
            if is {
                Arity::One
            } else {
                Arity::Absent
            }
        }
        Expr::Include(r) => {
            if stack.contains(r) {
                return Arity::Absent;
            }
            match g.rule(r) {
                Some(Rule { def: RuleDef::Normal(b), .. }) => {
                    stack.push(r.clone());
                    let a = arity_rec(g, b, field, stack);
                    stack.pop();
                    a
                }
                _ => Arity::Absent,
            }
        }
        Expr::Seq(v) => {
            let ars: Vec<Arity> = v.iter().map(|p| arity_rec(g, p, field, stack)).filter(|a| *a != Arity::Absent).collect();
            match ars.len() {
                0 => Arity::Absent,
                1 => ars[0],
                _ => Arity::Multiple,
            }
        }
        Expr::Choice(v) => {
            let ars: Vec<Arity> = v.iter().map(|p| arity_rec(g, p, field, stack)).collect();
            let max = *ars.iter().max().unwrap_or(&Arity::Absent);
            if max == Arity::Absent {
                Arity::Absent
            } else if ars.iter().any(|a| *a == Arity::Absent) {
                max.max(Arity::Optional)
            } else {
                max
            }
        }
        Expr::Opt(b) => match arity_rec(g, b, field, stack) {
            Arity::One => Arity::Optional,
            a => a,
        },
        Expr::Star(b) | Expr::Plus(b) => match arity_rec(g, b, field, stack) {
            Arity::Absent => Arity::Absent,
            _ => Arity::Multiple,
        },
        Expr::Not(_) | Expr::And(_) => Arity::Absent,
        Expr::Group(b) => arity_rec(g, b, field, stack),
        Expr::Lit { .. } | Expr::Range { .. } | Expr::Eoi => Arity::Absent,
    }
}

/// (field name in declaration order) -> (type name -> boxed), looking through includes
pub fn fields_in_order(g: &Grammar, e: &Expr) -> Vec<(String, BTreeMap<String, bool>)> {
    let mut out: Vec<(String, BTreeMap<String, bool>)> = Vec::new();
    collect(g, e, &mut out, &mut Vec::new());
    out
}

fn collect(g: &Grammar, e: &Expr, out: &mut Vec<(String, BTreeMap<String, bool>)>, stack: &mut Vec<String>) {
    match e {
        Expr::Ref { name, boxed, rule } => {
            let n = match name {
                FieldName::None => return,
                FieldName::Named(n) => n.clone(),
                FieldName::Override => "_override".to_string(),
            };
            let idx = match out.iter().position(|(f, _)| *f == n) {
                Some(i) => i,
                None => {
                    out.push((n, BTreeMap::new()));
                    out.len() - 1
                }
            };
            let ent = out[idx].1.entry(rule.clone()).or_insert(false);
            *ent = *ent || *boxed;
        }
        Expr::Include(r) => {
            if stack.contains(r) {
                return;
            }
            if let Some(Rule { def: RuleDef::Normal(b), .. }) = g.rule(r) {
                stack.push(r.clone());
                collect(g, b, out, stack);
                stack.pop();
            }
        }
        _ => {
            for c in e.children() {
                collect(g, c, out, stack);
            }
        }
    }
}
