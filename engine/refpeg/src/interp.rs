//! The reference interpreter: textbook PEG semantics over `&str` with byte offsets, plus the
//! peginator-specific observables (result tree, spans, failed-attempt log, rule events, memo /
//! left-recursion as the property statements word them). No cleverness on purpose.

use crate::ast::*;
use std::collections::{BTreeMap, BTreeSet};

/// Environment answers of user functions.
pub trait Hooks {
    /// `@check` function on a rule value (canonical form of the value, with positions)
    fn check(&mut self, func: &str, arg: &str) -> bool;
    /// `@check` function on a `@char` rule
    fn char_check(&mut self, func: &str, c: char) -> bool;
    /// `@extern` function: remaining input -> (value text, bytes consumed) or error string
    fn ext(&mut self, func: &str, rest: &str) -> Result<(String, usize), String>;
}

pub struct NoHooks;
impl Hooks for NoHooks {
    fn check(&mut self, _: &str, _: &str) -> bool {
        true
    }
    fn char_check(&mut self, _: &str, _: char) -> bool {
        true
    }
    fn ext(&mut self, _: &str, _: &str) -> Result<(String, usize), String> {
        Err("no extern".into())
    }
}

#[derive(Clone, Debug, PartialEq)]
pub enum RVal {
    Node { rule: String, fields: Vec<(String, Vec<RVal>)>, pos: Option<(usize, usize)> },
    Str(String),
    StrPos { rule: String, s: String, pos: (usize, usize) },
    Char(char),
    /// enum variant (multi-type field or enum override rule) or tuple-struct extern value
    Wrap(String, Box<RVal>),
    /// unit value of an extern type
    Unit(String),
    /// value of an override rule with a single type: the matches, in order (usually exactly one)
    Over(Vec<RVal>),
}

fn push_canon(v: &RVal, keep_pos: bool, out: &mut Vec<String>) {
    match v {
        RVal::Over(items) => {
            for i in items {
                push_canon(i, keep_pos, out);
            }
        }
        other => out.push(other.canon(keep_pos)),
    }
}

impl RVal {
    /// canonical form, see dbg.rs
    pub fn canon(&self, keep_pos: bool) -> String {
        match self {
            RVal::Node { rule, fields, pos } => {
                let mut fs: Vec<(String, String)> = fields
                    .iter()
                    .map(|(f, vals)| {
                        let mut items = Vec::new();
                        for v in vals {
                            push_canon(v, keep_pos, &mut items);
                        }
                        (f.clone(), format!("[{}]", items.join(",")))
                    })
                    .collect();
                fs.sort();
                let body: Vec<String> = fs.into_iter().map(|(f, v)| format!("{f}:{v}")).collect();
                let mut s = format!("{}{{{}}}", rule, body.join(","));
                if keep_pos {
                    if let Some((a, b)) = pos {
                        s.push_str(&format!("@{a}..{b}"));
                    }
                }
                s
            }
            RVal::Str(s) => format!("{:?}", s),
            RVal::StrPos { rule, s, pos } => {
                let mut r = format!("{}{{string:[{:?}]}}", rule, s);
                if keep_pos {
                    r.push_str(&format!("@{}..{}", pos.0, pos.1));
                }
                r
            }
            RVal::Char(c) => format!("{:?}", c),
            RVal::Wrap(n, v) => format!("{}({})", n, v.canon(keep_pos)),
            RVal::Unit(n) => format!("{n}{{}}"),
            RVal::Over(items) => {
                // an Over at top level or inside a wrapper: one item stands for itself, otherwise a list
                let mut out = Vec::new();
                for i in items {
                    push_canon(i, keep_pos, &mut out);
                }
                format!("[{}]", out.join(","))
            }
        }
    }
    /// canonical form of the top-level result (matches dbg::canon_top)
    pub fn canon_top(&self, keep_pos: bool, exactly_one: bool) -> String {
        match self {
            RVal::Over(items) if exactly_one && items.len() == 1 => items[0].canon_top(keep_pos, exactly_one),
            other => other.canon(keep_pos),
        }
    }
}

#[derive(Clone, Debug, PartialEq, Eq, PartialOrd, Ord)]
pub enum AttemptKind {
    AnyChar,
    Char(char),
    Range(char, char),
    Str(String),
    Class(String),
    Eoi,
    NegLook,
    Check(String),
    Extern(String),
    Sentinel,
}

impl AttemptKind {
    /// `{:?}` of the corresponding ParseErrorSpecifics
    pub fn debug(&self) -> String {
        match self {
            AttemptKind::AnyChar => "ExpectedAnyCharacter".into(),
            AttemptKind::Char(c) => format!("ExpectedCharacter {{ c: {:?} }}", c),
            AttemptKind::Range(a, b) => format!("ExpectedCharacterRange {{ from: {:?}, to: {:?} }}", a, b),
            AttemptKind::Str(s) => format!("ExpectedString {{ s: {:?} }}", s),
            AttemptKind::Class(n) => format!("ExpectedCharacterClass {{ name: {:?} }}", n),
            AttemptKind::Eoi => "ExpectedEoi".into(),
            AttemptKind::NegLook => "NegativeLookaheadFailed".into(),
            AttemptKind::Check(f) => format!("CheckFunctionFailed {{ function_name: {:?} }}", f),
            AttemptKind::Extern(e) => format!("ExternRuleFailed {{ error_string: {:?} }}", e),
            AttemptKind::Sentinel => "LeftRecursionSentinel".into(),
        }
    }
}

/// class 0: counts for the furthest-failure offset under every reading of the statement;
/// class 1: counts only under the lenient reading; class 2: happened, but inside a lookahead that did
/// not make the parse fail (counts for "some attempt really failed there" only).
#[derive(Clone, Debug, PartialEq, Eq)]
pub struct Attempt {
    pub pos: usize,
    pub kind: AttemptKind,
    pub class: u8,
}

#[derive(Clone, Debug, PartialEq, Eq)]
pub enum Event {
    Enter { rule: String, pos: usize },
    Exit { ok: bool, end: usize },
    Info(String),
}

#[derive(Clone, Debug, Default)]
pub struct Options {
    /// honour @memoize (cache results per (rule, offset)); otherwise @memoize is ignored (pure PEG)
    pub honour_memo: bool,
    pub fuel: usize,
    pub max_depth: usize,
}

impl Options {
    pub fn pure() -> Self {
        Options { honour_memo: false, fuel: 2_000_000, max_depth: 150 }
    }
    pub fn memo() -> Self {
        Options { honour_memo: true, fuel: 2_000_000, max_depth: 150 }
    }
}

#[derive(Clone, Debug)]
pub struct Outcome {
    /// Ok((end offset, value)) or Err(())
    pub result: Result<(usize, RVal), ()>,
    pub attempts: Vec<Attempt>,
    pub events: Vec<Event>,
    /// (rule, offset) of every evaluation of a normal rule's body (cache misses included, hits not)
    pub body_evals: Vec<(String, usize)>,
    /// (rule, offset) of cache hits
    pub cache_hits: Vec<(String, usize)>,
    /// (function, argument) of every user function call, in call order
    pub hook_calls: Vec<(String, String)>,
    /// per (rule, offset): set of (ok, end) outcomes of its evaluations
    pub rule_outcomes: BTreeMap<(String, usize), BTreeSet<(bool, usize)>>,
    /// the reference ran out of fuel / depth: the case is outside what the model decides
    pub gave_up: bool,
    pub steps: usize,
}

impl Outcome {
    pub fn accepted(&self) -> bool {
        self.result.is_ok()
    }
    pub fn max_attempt(&self, max_class: u8) -> Option<usize> {
        self.attempts.iter().filter(|a| a.class <= max_class).map(|a| a.pos).max()
    }
}

struct Fail;

#[derive(Clone)]
struct FieldEvent {
    name: String,
    ty: String,
    val: RVal,
}

pub struct Interp<'a> {
    g: &'a Grammar,
    input: &'a str,
    hooks: &'a mut dyn Hooks,
    opts: Options,
    attempts: Vec<Attempt>,
    events: Vec<Event>,
    body_evals: Vec<(String, usize)>,
    cache_hits: Vec<(String, usize)>,
    hook_calls: Vec<(String, String)>,
    rule_outcomes: BTreeMap<(String, usize), BTreeSet<(bool, usize)>>,
    cache: BTreeMap<(String, usize), Result<(usize, RVal), ()>>,
    steps: usize,
    depth: usize,
    gave_up: bool,
    user_ws: bool,
    multi_cache: BTreeMap<String, BTreeMap<String, bool>>,
}

pub fn run(g: &Grammar, root: &str, input: &str, hooks: &mut dyn Hooks, opts: Options) -> Outcome {
    let mut it = Interp {
        g,
        input,
        hooks,
        opts,
        attempts: Vec::new(),
        events: Vec::new(),
        body_evals: Vec::new(),
        cache_hits: Vec::new(),
        hook_calls: Vec::new(),
        rule_outcomes: BTreeMap::new(),
        cache: BTreeMap::new(),
        steps: 0,
        depth: 0,
        gave_up: false,
        user_ws: g.has("Whitespace"),
        multi_cache: BTreeMap::new(),
    };
    let result = match it.call_rule(root, 0) {
        Ok(v) => Ok(v),
        Err(Fail) => Err(()),
    };
    Outcome {
        result,
        attempts: it.attempts,
        events: it.events,
        body_evals: it.body_evals,
        cache_hits: it.cache_hits,
        hook_calls: it.hook_calls,
        rule_outcomes: it.rule_outcomes,
        gave_up: it.gave_up,
        steps: it.steps,
    }
}

const ASCII_WS: [u8; 5] = [b' ', b'\t', b'\n', 0x0C, b'\r'];

impl<'a> Interp<'a> {
    fn tick(&mut self) -> Result<(), Fail> {
        self.steps += 1;
        if self.steps > self.opts.fuel || self.depth > self.opts.max_depth {
            self.gave_up = true;
            return Err(Fail);
        }
        Ok(())
    }

    fn fail(&mut self, pos: usize, kind: AttemptKind) -> Fail {
        self.attempts.push(Attempt { pos, kind, class: 0 });
        Fail
    }

    fn rest(&self, pos: usize) -> &'a str {
        &self.input[pos..]
    }

    /// whitespace skipping in front of a token of a skipping rule
    fn skip_ws(&mut self, pos: usize) -> Result<usize, Fail> {
        if self.user_ws {
            let (end, _) = self.call_rule("Whitespace", pos)?;
            Ok(end)
        } else {
            let b = self.input.as_bytes();
            let mut p = pos;
            while p < b.len() && ASCII_WS.contains(&b[p]) {
                p += 1;
            }
            Ok(p)
        }
    }

    /// is the field a multi-type field of this rule body (then its values are enum-wrapped)?
    fn field_is_multi(&mut self, rule: &str, body: &Expr, field: &str) -> bool {
        if !self.multi_cache.contains_key(rule) {
            let ft = self.g.field_types(body);
            let m = ft.into_iter().map(|(k, v)| (k, v.len() > 1)).collect();
            self.multi_cache.insert(rule.to_string(), m);
        }
        *self.multi_cache[rule].get(field).unwrap_or(&false)
    }

    /// Evaluate a reference to `name` at `pos` (the caller has already skipped whitespace).
    fn call_rule(&mut self, name: &str, pos: usize) -> Result<(usize, RVal), Fail> {
        self.tick()?;
        if name == "char" {
            return match self.rest(pos).chars().next() {
                Some(c) => Ok((pos + c.len_utf8(), RVal::Char(c))),
                None => Err(self.fail(pos, AttemptKind::AnyChar)),
            };
        }
        if name == "Whitespace" && !self.user_ws {
            let b = self.input.as_bytes();
            let mut p = pos;
            while p < b.len() && ASCII_WS.contains(&b[p]) {
                p += 1;
            }
            return Ok((p, RVal::Unit("Whitespace".into())));
        }
        let g = self.g;
        let Some(rule) = g.rule(name) else {
            self.gave_up = true;
            return Err(Fail);
        };
        match &rule.def {
            RuleDef::Char { parts, .. } => self.call_char_rule(rule, parts, pos),
            RuleDef::Extern { func, ret } => {
                let f = func.join("::");
                let rest = self.rest(pos);
                self.hook_calls.push((f.clone(), rest.to_string()));
                match self.hooks.ext(&f, rest) {
                    Ok((text, n)) => {
                        let val = match ret {
                            None => RVal::Str(text),
                            Some(path) => {
                                let last = path.last().unwrap().clone();
                                if last == "String" {
                                    RVal::Str(text)
                                } else if text.is_empty() && last.starts_with('U') {
                                    RVal::Unit(last)
                                } else {
                                    RVal::Wrap(last, Box::new(RVal::Str(text)))
                                }
                            }
                        };
                        Ok((pos + n, val))
                    }
                    Err(msg) => Err(self.fail(pos, AttemptKind::Extern(msg))),
                }
            }
            RuleDef::Normal(body) => {
                self.depth += 1;
                self.events.push(Event::Enter { rule: name.to_string(), pos });
                let r = self.call_normal(rule, body, pos);
                let (ok, end) = match &r {
                    Ok((e, _)) => (true, *e),
                    Err(_) => (false, pos),
                };
                self.events.push(Event::Exit { ok, end });
                self.rule_outcomes.entry((name.to_string(), pos)).or_default().insert((ok, if ok { end } else { 0 }));
                self.depth -= 1;
                r
            }
        }
    }

    fn call_char_rule(&mut self, rule: &Rule, parts: &[CharPart], pos: usize) -> Result<(usize, RVal), Fail> {
        let checks = rule.checks();
        if !checks.is_empty() {
            match self.rest(pos).chars().next() {
                Some(c) => {
                    for f in &checks {
                        self.hook_calls.push((f.clone(), format!("{:?}", c)));
                        if !self.hooks.char_check(f, c) {
                            return Err(self.fail(pos, AttemptKind::Class(rule.name.clone())));
                        }
                    }
                }
                None => return Err(self.fail(pos, AttemptKind::Class(rule.name.clone()))),
            }
        }
        let next = self.rest(pos).chars().next();
        for p in parts {
            match p {
                CharPart::Char(lc) => {
                    if next == Some(lc.c) {
                        return Ok((pos + lc.c.len_utf8(), RVal::Char(lc.c)));
                    }
                }
                CharPart::Range(a, b) => {
                    if let Some(c) = next {
                        if c >= a.c && c <= b.c {
                            return Ok((pos + c.len_utf8(), RVal::Char(c)));
                        }
                    }
                }
                CharPart::Ident(n) => {
                    let mark = self.attempts.len();
                    match self.call_rule(n, pos) {
                        Ok(v) => return Ok(v),
                        Err(Fail) => {
                            if self.gave_up {
                                return Err(Fail);
                            }
                            // the class itself reports the failure
                            self.attempts.truncate(mark);
                        }
                    }
                }
            }
        }
        Err(self.fail(pos, AttemptKind::Class(rule.name.clone())))
    }

    fn call_normal(&mut self, rule: &'a Rule, body: &'a Expr, pos: usize) -> Result<(usize, RVal), Fail> {
        let flags = rule.flags();
        let key = (rule.name.clone(), pos);
        if flags.leftrec {
            if let Some(c) = self.cache.get(&key).cloned() {
                self.events.push(Event::Info("Cache hit (left recursive)".into()));
                self.cache_hits.push(key.clone());
                return match c {
                    Ok(v) => Ok(v),
                    Err(()) => {
                        // either the seed or a cached failure
                        self.attempts.push(Attempt { pos, kind: AttemptKind::Sentinel, class: 2 });
                        Err(Fail)
                    }
                };
            }
            let mut best: Result<(usize, RVal), ()> = Err(());
            self.cache.insert(key.clone(), best.clone());
            loop {
                self.events.push(Event::Info("Starting new left recursive loop".into()));
                let new = self.eval_body(rule, body, pos);
                if self.gave_up {
                    return Err(Fail);
                }
                match (new, &best) {
                    (Ok(n), Ok(b)) => {
                        if n.0 > b.0 {
                            best = Ok(n);
                            self.cache.insert(key.clone(), best.clone());
                        } else {
                            break;
                        }
                    }
                    (Ok(n), Err(())) => {
                        best = Ok(n);
                        self.cache.insert(key.clone(), best.clone());
                    }
                    (Err(Fail), Ok(_)) => break,
                    (Err(Fail), Err(())) => {
                        self.cache.insert(key.clone(), Err(()));
                        break;
                    }
                }
            }
            return best.map_err(|_| Fail);
        }
        if flags.memoize && self.opts.honour_memo {
            if let Some(c) = self.cache.get(&key).cloned() {
                self.events.push(Event::Info("Cache hit".into()));
                self.cache_hits.push(key);
                return c.map_err(|_| Fail);
            }
            let r = self.eval_body(rule, body, pos);
            if self.gave_up {
                return Err(Fail);
            }
            let c = match &r {
                Ok(v) => Ok(v.clone()),
                Err(Fail) => Err(()),
            };
            self.cache.insert(key, c);
            return r;
        }
        self.eval_body(rule, body, pos)
    }

    /// one evaluation of a normal rule's body at `pos`, building the rule's value
    fn eval_body(&mut self, rule: &'a Rule, body: &'a Expr, pos: usize) -> Result<(usize, RVal), Fail> {
        self.body_evals.push((rule.name.clone(), pos));
        let flags = rule.flags();
        let skipping = !flags.no_skip_ws;
        let mut fields: Vec<FieldEvent> = Vec::new();
        let end = self.eval(rule, body, pos, skipping, &mut fields)?;
        let g = self.g;
        let val = match g.kind(rule) {
            RuleKind::Str => {
                let s = self.input[pos..end].to_string();
                if flags.position {
                    RVal::StrPos { rule: rule.name.clone(), s, pos: (pos, end) }
                } else {
                    RVal::Str(s)
                }
            }
            RuleKind::Alias => RVal::Over(fields.into_iter().map(|f| f.val).collect()),
            RuleKind::Enum => {
                // documented: exactly one override match on every path
                if fields.len() == 1 {
                    let f = fields.pop().unwrap();
                    RVal::Wrap(f.ty, Box::new(f.val))
                } else {
                    RVal::Over(fields.into_iter().map(|f| RVal::Wrap(f.ty, Box::new(f.val))).collect())
                }
            }
            RuleKind::Struct => {
                let decl = crate::shape::fields_in_order(g, body);
                let mut fs: Vec<(String, Vec<RVal>)> = decl.iter().map(|(n, _)| (n.clone(), Vec::new())).collect();
                for ev in fields {
                    let multi = self.field_is_multi(&rule.name, body, &ev.name);
                    let v = if multi { RVal::Wrap(ev.ty, Box::new(ev.val)) } else { ev.val };
                    if let Some(slot) = fs.iter_mut().find(|(n, _)| *n == ev.name) {
                        slot.1.push(v);
                    }
                }
                RVal::Node { rule: rule.name.clone(), fields: fs, pos: if flags.position { Some((pos, end)) } else { None } }
            }
            RuleKind::Char | RuleKind::Extern => unreachable!(),
        };
        let checks = rule.checks();
        if !checks.is_empty() {
            let one = g.kind(rule) == RuleKind::Alias && crate::shape::arity_of(g, body, "_override") == crate::shape::Arity::One;
            let arg = val.canon_top(true, one);
            for f in &checks {
                self.hook_calls.push((f.clone(), arg.clone()));
                if !self.hooks.check(f, &arg) {
                    // a failed check is reported where the rule started (strict reading) or where it
                    // ended (lenient reading); both are recorded
                    self.attempts.push(Attempt { pos, kind: AttemptKind::Check(f.clone()), class: 0 });
                    self.attempts.push(Attempt { pos: end, kind: AttemptKind::Check(f.clone()), class: 1 });
                    return Err(Fail);
                }
            }
        }
        Ok((end, val))
    }

    fn reclass(&mut self, mark: usize, class: u8) {
        for a in &mut self.attempts[mark..] {
            if a.class < class {
                a.class = class;
            }
        }
    }

    /// Evaluate expression `e` of rule `rule` at `pos`; returns the end offset. Field matches on the
    /// successful path are appended to `fields`; on failure `fields` is restored by the caller.
    fn eval(&mut self, rule: &'a Rule, e: &'a Expr, pos: usize, skipping: bool, fields: &mut Vec<FieldEvent>) -> Result<usize, Fail> {
        self.tick()?;
        match e {
            Expr::Lit { chars, insensitive, .. } => {
                let p = if skipping { self.skip_ws(pos)? } else { pos };
                let rest = self.rest(p);
                let lit: String = chars.iter().map(|c| c.c).collect();
                if *insensitive {
                    let low = lit.to_ascii_lowercase();
                    let ok = rest.len() >= low.len()
                        && rest.as_bytes()[..low.len()].iter().zip(low.as_bytes()).all(|(a, b)| a.to_ascii_lowercase() == *b);
                    if ok {
                        Ok(p + low.len())
                    } else if low.chars().count() == 1 {
                        Err(self.fail(p, AttemptKind::Char(low.chars().next().unwrap())))
                    } else {
                        Err(self.fail(p, AttemptKind::Str(low)))
                    }
                } else if rest.starts_with(&lit) {
                    Ok(p + lit.len())
                } else if lit.chars().count() == 1 {
                    Err(self.fail(p, AttemptKind::Char(lit.chars().next().unwrap())))
                } else {
                    Err(self.fail(p, AttemptKind::Str(lit)))
                }
            }
            Expr::Range { from, to } => {
                let p = if skipping { self.skip_ws(pos)? } else { pos };
                match self.rest(p).chars().next() {
                    Some(c) if c >= from.c && c <= to.c => Ok(p + c.len_utf8()),
                    _ => Err(self.fail(p, AttemptKind::Range(from.c, to.c))),
                }
            }
            Expr::Eoi => {
                let p = if skipping { self.skip_ws(pos)? } else { pos };
                if p == self.input.len() {
                    Ok(p)
                } else {
                    Err(self.fail(p, AttemptKind::Eoi))
                }
            }
            Expr::Ref { name, rule: target, .. } => {
                let p = if skipping { self.skip_ws(pos)? } else { pos };
                let (end, val) = self.call_rule(target, p)?;
                match name {
                    FieldName::None => {}
                    FieldName::Named(n) => fields.push(FieldEvent { name: n.clone(), ty: target.clone(), val }),
                    FieldName::Override => fields.push(FieldEvent { name: "_override".into(), ty: target.clone(), val }),
                }
                Ok(end)
            }
            Expr::Include(r) => {
                let g = self.g;
                match g.rule(r) {
                    Some(Rule { def: RuleDef::Normal(b), .. }) => {
                        self.depth += 1;
                        let res = self.eval(rule, b, pos, skipping, fields);
                        self.depth -= 1;
                        res
                    }
                    _ => {
                        self.gave_up = true;
                        Err(Fail)
                    }
                }
            }
            Expr::Seq(parts) => {
                let mark = fields.len();
                let mut p = pos;
                for part in parts {
                    match self.eval(rule, part, p, skipping, fields) {
                        Ok(np) => p = np,
                        Err(Fail) => {
                            fields.truncate(mark);
                            return Err(Fail);
                        }
                    }
                }
                Ok(p)
            }
            Expr::Choice(arms) => {
                let mark = fields.len();
                for arm in arms {
                    match self.eval(rule, arm, pos, skipping, fields) {
                        Ok(np) => return Ok(np),
                        Err(Fail) => {
                            fields.truncate(mark);
                            if self.gave_up {
                                return Err(Fail);
                            }
                        }
                    }
                }
                Err(Fail)
            }
            Expr::Opt(b) => {
                let mark = fields.len();
                match self.eval(rule, b, pos, skipping, fields) {
                    Ok(np) => Ok(np),
                    Err(Fail) => {
                        fields.truncate(mark);
                        if self.gave_up {
                            return Err(Fail);
                        }
                        Ok(pos)
                    }
                }
            }
            Expr::Star(b) | Expr::Plus(b) => {
                let mut p = pos;
                let mut n = 0usize;
                let mut idle = 0usize;
                loop {
                    let mark = fields.len();
                    match self.eval(rule, b, p, skipping, fields) {
                        Ok(np) => {
                            if np == p {
                                // a closure body that succeeds without consuming: with stateful user functions it
                                // may still end (a few such iterations are followed); otherwise it is the
                                // documented non-termination, outside the model
                                idle += 1;
                                if idle > 16 {
                                    self.gave_up = true;
                                    return Err(Fail);
                                }
                            }
                            p = np;
                            n += 1;
                        }
                        Err(Fail) => {
                            fields.truncate(mark);
                            if self.gave_up {
                                return Err(Fail);
                            }
                            break;
                        }
                    }
                }
                if matches!(e, Expr::Plus(_)) && n == 0 {
                    return Err(Fail);
                }
                Ok(p)
            }
            Expr::Not(b) => {
                let mark = self.attempts.len();
                let mut scratch = Vec::new();
                match self.eval(rule, b, pos, skipping, &mut scratch) {
                    Ok(_) => {
                        self.reclass(mark, 1);
                        Err(self.fail(pos, AttemptKind::NegLook))
                    }
                    Err(Fail) => {
                        if self.gave_up {
                            return Err(Fail);
                        }
                        self.reclass(mark, 2);
                        Ok(pos)
                    }
                }
            }
            Expr::And(b) => {
                let mark = self.attempts.len();
                let mut scratch = Vec::new();
                match self.eval(rule, b, pos, skipping, &mut scratch) {
                    Ok(_) => {
                        self.reclass(mark, 2);
                        Ok(pos)
                    }
                    Err(Fail) => Err(Fail),
                }
            }
            Expr::Group(b) => self.eval(rule, b, pos, skipping, fields),
        }
    }
}
