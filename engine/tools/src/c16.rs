//! C16: code generation is deterministic and identical through every integration route.
//! Routes: library call (twice in-process), library in K fresh processes, peginator-cli in K fresh
//! processes, Compile::file and Compile::directory in K fresh processes. Compared byte-wise after
//! removing the comment header, the prefix and surrounding whitespace.

use crate::util::*;
use peginator_codegen::{CodegenGrammar, CodegenSettings, Compile, Grammar as RealGrammar};
use rayon::prelude::*;
use refpeg::ast::*;
use refpeg::corpus::Tier;
use refpeg::print::grammar_text;
use serde_json::json;
use std::process::{Command, Stdio};
use std::str::FromStr;

fn lib_generate(text: &str, derives: &Option<Vec<String>>) -> Result<String, String> {
    let g = RealGrammar::from_str(text).map_err(|e| format!("parse error at {}", e.position))?;
    let mut s = CodegenSettings::default();
    if let Some(d) = derives {
        s.derives = d.clone();
    }
    g.generate_code(&s).map(|t| t.to_string()).map_err(|e| format!("{e:#}"))
}

fn lib_generate_ctx(text: &str, derives: &Option<Vec<String>>, ctx: Option<&str>) -> Result<String, String> {
    let g = RealGrammar::from_str(text).map_err(|e| format!("parse error at {}", e.position))?;
    let mut s = CodegenSettings::default();
    if let Some(d) = derives {
        s.derives = d.clone();
    }
    if let Some(c) = ctx {
        s.set_user_context_type(c);
    }
    g.generate_code(&s).map(|t| t.to_string()).map_err(|e| format!("{e:#}"))
}

/// the build-script helper configured with the same settings through every order of its setter calls
fn builder_orders(text: &str, gfile: &std::path::Path, dest: &std::path::Path, derives: &Option<Vec<String>>, st: &mut Stats) {
    let prefix = "use std::fmt;";
    for ctx in [None, Some("crate::m::Ctx")] {
        let base = lib_generate_ctx(text, derives, ctx);
        // setters: 0 = prefix, 1 = derives (when a set is given), 2 = user_context_type (when given)
        let mut setters: Vec<usize> = vec![0];
        if derives.is_some() {
            setters.push(1);
        }
        if ctx.is_some() {
            setters.push(2);
        }
        let mut orders: Vec<Vec<usize>> = vec![vec![]];
        for _ in 0..setters.len() {
            orders = orders.into_iter().flat_map(|o| setters.iter().filter(|x| !o.contains(x)).map(|x| { let mut n = o.clone(); n.push(*x); n }).collect::<Vec<_>>()).collect();
        }
        for order in orders {
            let _ = std::fs::remove_file(dest);
            let mut c = Compile::file(gfile).destination(dest);
            for x in &order {
                c = match x {
                    0 => c.prefix(prefix.to_string()),
                    1 => c.derives(derives.clone().unwrap()),
                    _ => c.user_context_type(ctx.unwrap()),
                };
            }
            let r = std::panic::catch_unwind(std::panic::AssertUnwindSafe(|| c.run()));
            let got: Result<String, String> = match r {
                Ok(Ok(())) => std::fs::read_to_string(dest).map(|s| normalise(&s, prefix)).map_err(|e| e.to_string()),
                Ok(Err(e)) => Err(format!("{e:#}")),
                Err(_) => Err("panic".into()),
            };
            st.evaluations += 1;
            st.nontrivial += 1;
            st.bump("route_builder-order", 1);
            let same = match (&base, &got) {
                (Ok(a), Ok(b)) => a.trim() == b.trim(),
                (Err(_), Err(e)) => e != "panic",
                _ => false,
            };
            if !same {
                let names: Vec<&str> = order.iter().map(|x| ["prefix", "derives", "user_context_type"][*x]).collect();
                st.violation("C16", "route-output-differs", json!({"grammar": text, "input": format!("Compile builder, setters called in the order {:?}", names), "derives": derives,
                    "site": "builder-order", "expected": "the library output for the same settings",
                    "actual": match &got { Ok(b) => { let a = base.clone().unwrap_or_default(); let n = a.chars().zip(b.chars()).take_while(|(x, y)| x == y).count(); format!("differs at {n}: {:?}", b.chars().skip(n.saturating_sub(30)).take(120).collect::<String>()) } Err(e) => e.clone() }}));
            }
        }
    }
}

/// child: tools c16gen lib <file> [derives..] | file <file> <dest> <prefix> [derives..] | dir <dir> <prefix> [derives..]
pub fn gen(args: &[String]) {
    match args[0].as_str() {
        "lib" => {
            let text = std::fs::read_to_string(&args[1]).unwrap();
            let d = if args.len() > 2 { Some(args[2..].iter().filter(|s| *s != "-").cloned().collect()) } else { None };
            match lib_generate(&text, &d) {
                Ok(s) => {
                    println!("{s}");
                }
                Err(e) => {
                    println!("ERR {e}");
                    std::process::exit(1)
                }
            }
        }
        "libseq" => {
            // generate <file1>, then <file2> with the same function on the same thread; print the second
            let first = std::fs::read_to_string(&args[1]).unwrap();
            let text = std::fs::read_to_string(&args[2]).unwrap();
            let d = if args.len() > 3 { Some(args[3..].iter().filter(|s| *s != "-").cloned().collect()) } else { None };
            let _ = lib_generate(&first, &d);
            match lib_generate(&text, &d) {
                Ok(s) => println!("{s}"),
                Err(e) => {
                    println!("ERR {e}");
                    std::process::exit(1)
                }
            }
        }
        "file" | "dir" => {
            let is_file = args[0] == "file";
            let (c, rest) = if is_file { (Compile::file(&args[1]).destination(&args[2]), &args[3..]) } else { (Compile::directory(&args[1]), &args[2..]) };
            let prefix = rest[0].clone();
            let c = c.prefix(prefix);
            let c = if rest.len() > 1 { c.derives(rest[1..].iter().filter(|s| *s != "-").cloned().collect()) } else { c };
            match c.run() {
                Ok(()) => {}
                Err(_) => std::process::exit(1),
            }
        }
        _ => std::process::exit(2),
    }
}

fn normalise(s: &str, prefix: &str) -> String {
    let mut rest = s;
    while rest.starts_with("//") {
        match rest.find('\n') {
            Some(nl) => rest = &rest[nl + 1..],
            None => {
                rest = "";
            }
        }
    }
    let mut rest = rest.trim_start();
    if !prefix.is_empty() {
        if let Some(r) = rest.strip_prefix(prefix) {
            rest = r;
        }
    }
    rest.trim().to_string()
}

fn corpus(tier: Tier) -> Vec<(String, bool)> {
    // (grammar text, "interesting": multi-type fields or several memoized rules)
    let mut out: Vec<(String, bool)> = Vec::new();
    let n = if tier == Tier::Quick { 25 } else { 250 };
    let mut take = |prop: &str, n: usize, pred: &dyn Fn(&refpeg::corpus::Case) -> bool, interesting: bool| {
        let cases: Vec<_> = refpeg::corpus::build(prop, Tier::Quick).into_iter().filter(|c| pred(c)).collect();
        let step = (cases.len() / n).max(1);
        for c in cases.into_iter().step_by(step).take(n) {
            out.push((c.text, interesting));
        }
    };
    take("C02", n, &|c| c.family.contains("twotypes") || c.family.contains("altpair") || c.family == "override", true);
    take("C02", n, &|c| c.family == "fields", false);
    take("C05", n, &|c| c.note == "mask7", true);
    // a later multi-field part re-binding a field of an earlier part (temporaries in the sequence template)
    take("C02", n, &|c| c.family.starts_with("ctx/two") || c.family.starts_with("ctx/optpair") || c.family.starts_with("ctx/twice"), true);
    take("C13", n, &|_| true, false);
    take("C09", n, &|_| true, false);
    out.push(("@export Pairs = keys : K '=' values : V { ',' keys : K '=' values : V } $ ;\n@string K = 'k' ;\n@string V = 'v' ;\n".into(), true));
    out.push(("@export R = f : K ( f : K g : V ) [ g : V f : K ] ;\n@string K = 'k' ;\n@string V = 'v' ;\n".into(), true));
    // the same included rule name at different positions of the rule list, with different bodies
    out.push(("@export Root = 'r' >X f:Y ;\nX = a:Y 'x' ;\nY = 'y' ;\n".into(), true));
    out.push(("@export Root = 'r' >X f:Y ;\nY = 'y' ;\nX = 'x' [ a:Y ] ;\n".into(), true));
    out.push(("Y = 'y' ;\nX = b:Y | 'x' ;\n@export Root = 'r' >X f:Y ;\n".into(), true));
    // quotes, backslashes and '#' inside literals (anything that scans the text for comments must read literals right)
    out.push(("@export Root = a:A b:B ;\n@string A = '\\\\' ;\n@string B = '#' 'x' ;\n".into(), true));
    out.push(("@export Root = a:A b:B ; # c '\n@string A = \"'\" '\\'' ;\n@string B = \"#\" '\\\\' '#' \"x\" 'y' ;\n".into(), true));
    // line endings: CRLF files, and a literal that spans a line break (raw CR LF inside the quotes)
    out.push(("@export Root = 'a' x:X ;\r\nX = 'x' ;\r\n".into(), false));
    out.push(("@export Root = 'a\r\nb' x:X ;\r\nX = \"x\ry\" | 'z\n' ;\r\n".into(), true));
    out.push(("# comment\r\n@export Root = { 'a\r\n' } $ ;\r\n".into(), true));
    // many independent multi-type fields, memoized and exported rules in one grammar: iteration-order
    // nondeterminism would show here with overwhelming probability
    let mut rules = Vec::new();
    for i in 0..60 {
        let types = ["Xa", "Yb", "Zc", "Wd", "Ve"];
        let arms: Vec<Expr> = (0..(2 + i % 4)).map(|k| seq(vec![lit(&format!("{k}")), field("f", types[(i + k) % 5]), opt(field(&format!("g{}", (i * 7 + k) % 5), types[(i + 2 * k) % 5]))])).collect();
        rules.push(Rule::normal(&format!("R{i}"), vec![Directive::Export, Directive::Memoize, Directive::Position], choice(arms)));
    }
    for t in ["Xa", "Yb", "Zc", "Wd", "Ve"] {
        rules.push(Rule::normal(t, vec![Directive::String], lit(&t.to_lowercase())));
    }
    let mut ov = Vec::new();
    for i in 0..20 {
        ov.push(Rule::normal(&format!("E{i}"), vec![Directive::Memoize], choice(vec![over("Xa"), over("Zc"), bover("Yb"), over("Ve")])));
    }
    rules.extend(ov);
    // several distinct @check functions on one rule (struct, override, @string, @char): call order is grammar order
    for i in 0..16usize {
        let mut dirs: Vec<Directive> = (0..(2 + i % 5)).map(|k| Directive::Check(vec!["crate".into(), "checks".into(), format!("c{}_{}", i, (k * 7 + i) % 11)])).collect();
        let body = match i % 3 {
            0 => seq(vec![field("a", "Xa"), opt(field("b", "Yb"))]),
            1 => choice(vec![over("Xa"), over("Zc")]),
            _ => {
                dirs.insert(1, Directive::String);
                plus(lit("s"))
            }
        };
        if i % 4 == 0 {
            dirs.push(Directive::Memoize);
        }
        rules.push(Rule::normal(&format!("K{i}"), dirs, body));
    }
    for i in 0..4usize {
        let n = 2 + i;
        rules.push(Rule {
            name: format!("Kc{i}"),
            directives: (0..n).map(|k| Directive::Check(vec!["crate".into(), format!("cc{}_{}", i, (k * 5 + i) % 7)])).collect(),
            def: RuleDef::Char { parts: vec![CharPart::Range(LitChar::canon('a'), LitChar::canon('f'))], checks_before: n / 2 },
        });
    }
    out.push((grammar_text(&Grammar { rules }), true));
    out
}

pub fn run(tier: Tier, cli: &str) {
    let k: usize = if tier == Tier::Quick { 3 } else { 12 };
    let exe = std::env::current_exe().unwrap();
    let dir = std::env::temp_dir().join(format!("verif-c16-{}", std::process::id()));
    std::fs::create_dir_all(&dir).unwrap();
    let grammars = corpus(tier);
    let v = |xs: &[&str]| Some(xs.iter().map(|s| s.to_string()).collect::<Vec<String>>());
    let derive_sets: Vec<Option<Vec<String>>> = vec![None, v(&[]), v(&["Debug", "Clone", "PartialEq", "Eq"])];
    let prefixes = ["", "use std::fmt;\nuse std::io;"];
    let results: Vec<Stats> = grammars
        .par_iter()
        .enumerate()
        .map(|(gi, (text, interesting))| {
            let mut st = Stats::new();
            st.max_viol = 4;
            let gdir = dir.join(format!("g{gi}"));
            std::fs::create_dir_all(gdir.join("d/sub")).unwrap();
            let gfile = gdir.join("g.ebnf");
            std::fs::write(&gfile, text).unwrap();
            for d in &derive_sets {
                let base = lib_generate(text, d);
                let dargs: Vec<String> = match d {
                    None => vec![],
                    Some(v) if v.is_empty() => vec!["-".to_string()],
                    Some(v) => v.clone(),
                };
                let mut cmp = |st: &mut Stats, route: &str, got: Result<String, String>| {
                    st.evaluations += 1;
                    if *interesting {
                        st.nontrivial += 1;
                    }
                    st.bump(&format!("route_{}", route.split(' ').next().unwrap()), 1);
                    let same = match (&base, &got) {
                        (Ok(a), Ok(b)) => a.trim() == b.trim(),
                        (Err(_), Err(_)) => true,
                        _ => false,
                    };
                    st.outcome(&format!("{:?}", got.as_ref().map(|s| refpeg::enumerate::fnv(s))));
                    st.sample(|| json!({"grammar": text.chars().take(300).collect::<String>(), "derives": d, "route": route, "bytes": got.as_ref().map(|s| s.len()).unwrap_or(0)}));
                    if !same {
                        let (a, b) = (base.clone().unwrap_or_else(|e| format!("ERR {e}")), got.clone().unwrap_or_else(|e| format!("ERR {e}")));
                        let n = a.chars().zip(b.chars()).take_while(|(x, y)| x == y).count();
                        st.violation("C16", "route-output-differs", json!({"grammar": text, "input": route, "derives": d, "site": route.split(' ').next().unwrap(),
                            "expected": format!("library output; around the first difference: {:?}", a.chars().skip(n.saturating_sub(40)).take(120).collect::<String>()),
                            "actual": format!("{:?}", b.chars().skip(n.saturating_sub(40)).take(120).collect::<String>())}));
                    }
                };
                // library, second call in this process
                cmp(&mut st, "library-again", lib_generate(text, d));
                // library, after other grammars were compiled by the same function on the same thread (the grammar value
                // sits at the same address each time)
                // (in a child process: a generator that dies is a finding, not the end of the check)
                for back in [1usize, 2, 7] {
                    let other = &grammars[(gi + grammars.len() - back % grammars.len()) % grammars.len()].0;
                    let ofile = gdir.join(format!("other{back}.ebnf"));
                    std::fs::write(&ofile, other).unwrap();
                    let o = Command::new(&exe).arg("c16gen").arg("libseq").arg(&ofile).arg(&gfile).args(&dargs).stdout(Stdio::piped()).stderr(Stdio::null()).output().unwrap();
                    let out = String::from_utf8_lossy(&o.stdout).to_string();
                    let got = match o.status.code() {
                        Some(0) => Ok(out),
                        Some(1) => Err(out),
                        _ => Ok(format!("<the process generating the code died: {}>", o.status)),
                    };
                    cmp(&mut st, &format!("library-after-another-grammar (corpus index -{back})"), got);
                }
                builder_orders(text, &gfile, &gdir.join("order.rs"), d, &mut st);
                for run in 0..k {
                    // library in a fresh process
                    let o = Command::new(&exe).arg("c16gen").arg("lib").arg(&gfile).args(&dargs).stdout(Stdio::piped()).stderr(Stdio::null()).output().unwrap();
                    let s = String::from_utf8_lossy(&o.stdout).to_string();
                    cmp(&mut st, &format!("library-process run {run}"), if o.status.success() { Ok(s) } else { Err(s) });
                    // CLI (cannot express the empty derive set)
                    if d.as_ref().map(|v| !v.is_empty()).unwrap_or(true) {
                        let mut c = Command::new(cli);
                        if let Some(v) = d {
                            for x in v {
                                c.arg("-d").arg(x);
                            }
                        }
                        let o = c.arg(&gfile).stdout(Stdio::piped()).stderr(Stdio::null()).output().unwrap();
                        let s = String::from_utf8_lossy(&o.stdout).to_string();
                        cmp(&mut st, &format!("cli run {run}"), if o.status.success() { Ok(normalise(&s, "")) } else { Err(s) });
                    }
                    for p in prefixes {
                        // Compile::file
                        let dest = gdir.join(format!("out-{run}.rs"));
                        let _ = std::fs::remove_file(&dest);
                        let o = Command::new(&exe).arg("c16gen").arg("file").arg(&gfile).arg(&dest).arg(p).args(&dargs).stdout(Stdio::null()).stderr(Stdio::null()).status().unwrap();
                        let got = if o.success() { std::fs::read_to_string(&dest).map(|s| normalise(&s, p)).map_err(|e| e.to_string()) } else { Err("Compile::run failed".into()) };
                        cmp(&mut st, &format!("compile-file run {run} prefix {:?}", p), got);
                        if run == 0 {
                            // the destination holds the compilation of an earlier version of the grammar file that differs in
                            // the content of its last literal only (an edit near the end of the file)
                            if let Some(end) = text.rfind('\'') {
                                if let Some(start) = text[..end].rfind('\'') {
                                    let older = format!("{}q{}", &text[..start + 1], &text[end..]);
                                    if older != *text {
                                        std::fs::write(&gfile, &older).unwrap();
                                        let _ = std::fs::remove_file(&dest);
                                        let o1 = Command::new(&exe).arg("c16gen").arg("file").arg(&gfile).arg(&dest).arg(p).args(&dargs).stdout(Stdio::null()).stderr(Stdio::null()).status().unwrap();
                                        std::fs::write(&gfile, text).unwrap();
                                        if o1.success() {
                                            let o = Command::new(&exe).arg("c16gen").arg("file").arg(&gfile).arg(&dest).arg(p).args(&dargs).stdout(Stdio::null()).stderr(Stdio::null()).status().unwrap();
                                            let got = if o.success() { std::fs::read_to_string(&dest).map(|s| normalise(&s, p)).map_err(|e| e.to_string()) } else { Err("Compile::run failed".into()) };
                                            cmp(&mut st, &format!("compile-file-after-edit (last literal was 'q') prefix {:?}", p), got);
                                        }
                                    }
                                }
                            }
                            // the same call with something already at the destination: nothing, the start of the right file
                            // (an interrupted write), a complete file of another compilation
                            if let Ok(full) = std::fs::read(&dest) {
                                // only cuts inside the header block: a file that starts with the complete expected header and prefix
                                // is "already produced from the same grammar, prefix and library" by design and is left alone
                                let text = String::from_utf8_lossy(&full).to_string();
                                let mut hdr = 0usize;
                                for l in text.split_inclusive('\n') {
                                    if l.starts_with("//") {
                                        hdr += l.len();
                                    } else {
                                        break;
                                    }
                                }
                                let cuts = [0usize, 1, 10, 60, 100, hdr.saturating_sub(1)];
                                let mut olds: Vec<(String, Vec<u8>)> = cuts.iter().filter(|c| **c < hdr).map(|c| (format!("first {c} bytes of the right file"), full[..*c].to_vec())).collect();
                                olds.push(("a complete file of another compilation".into(), b"// This file was generated by something else\npub struct Other;\n".to_vec()));
                                // ... and one that is much longer than the new output
                                let mut long = b"// This file was generated by something else\n".to_vec();
                                for i in 0..(full.len() / 20 + 200) {
                                    long.extend_from_slice(format!("pub struct Other{i};\n").as_bytes());
                                }
                                olds.push(("a longer complete file of another compilation".into(), long));
                                for (what, old) in olds {
                                    std::fs::write(&dest, &old).unwrap();
                                    let o = Command::new(&exe).arg("c16gen").arg("file").arg(&gfile).arg(&dest).arg(p).args(&dargs).stdout(Stdio::null()).stderr(Stdio::null()).status().unwrap();
                                    let got = if o.success() { std::fs::read_to_string(&dest).map(|s| normalise(&s, p)).map_err(|e| e.to_string()) } else { Err("Compile::run failed".into()) };
                                    cmp(&mut st, &format!("compile-file-over-existing ({what}) prefix {:?}", p), got);
                                }
                            }
                        }
                        // Compile::directory
                        let sub = gdir.join("d/sub/g.ebnf");
                        std::fs::write(&sub, text).unwrap();
                        let dest = gdir.join("d/sub/g.rs");
                        let _ = std::fs::remove_file(&dest);
                        let o = Command::new(&exe).arg("c16gen").arg("dir").arg(gdir.join("d")).arg(p).args(&dargs).stdout(Stdio::null()).stderr(Stdio::null()).status().unwrap();
                        let got = if o.success() { std::fs::read_to_string(&dest).map(|s| normalise(&s, p)).map_err(|e| e.to_string()) } else { Err("Compile::run failed".into()) };
                        cmp(&mut st, &format!("compile-directory run {run} prefix {:?}", p), got);
                        if run == 0 {
                            // the same tree compiled before with another prefix; the grammar file is older than its
                            // generated neighbour (the usual state of a source tree)
                            // (first run: the grammar is the newest file, as after an edit; then it is made the oldest)
                            let _ = filetime::set_file_mtime(&sub, filetime::FileTime::from_unix_time(4_000_000_000, 0));
                            let o1 = Command::new(&exe).arg("c16gen").arg("dir").arg(gdir.join("d")).arg("use std::cmp;").args(&dargs).stdout(Stdio::null()).stderr(Stdio::null()).status().unwrap();
                            if o1.success() {
                                let _ = filetime::set_file_mtime(&sub, filetime::FileTime::from_unix_time(1_000_000_000, 0));
                                let o = Command::new(&exe).arg("c16gen").arg("dir").arg(gdir.join("d")).arg(p).args(&dargs).stdout(Stdio::null()).stderr(Stdio::null()).status().unwrap();
                                let got = if o.success() { std::fs::read_to_string(&dest).map(|s| normalise(&s, p)).map_err(|e| e.to_string()) } else { Err("Compile::run failed".into()) };
                                cmp(&mut st, &format!("compile-directory-after-prefix-change prefix {:?}", p), got);
                            }
                        }
                    }
                }
            }
            st
        })
        .collect();
    let mut st = Stats::new();
    for r in results {
        st.merge(r);
    }
    let _ = std::fs::remove_dir_all(&dir);
    st.finish(json!({"grammars": grammars.len(), "processes_per_route": k, "derive_sets": 3, "prefixes": 2,
        "exhaustive": false,
        "explanation": "grammars x settings x routes is enumerated completely within the corpus; the per-process hash seed cannot be owned by the harness, so the K fresh processes per route SAMPLE that one dimension"}));
}

/// corpus for the peginate! comparison: JSON lines {text, inputs}
pub fn macro_corpus(tier: Tier) {
    let n = if tier == Tier::Quick { 10 } else { 40 };
    for prop in ["C02", "C05", "C07", "C09"] {
        let cases: Vec<_> = refpeg::corpus::build(prop, Tier::Quick).into_iter().filter(|c| !c.text.contains("hrt ::")).collect();
        let step = (cases.len() / n).max(1);
        for c in cases.into_iter().step_by(step).take(n) {
            let inputs: Vec<String> = c.inputs.materialize().into_iter().take(400).collect();
            println!("{}", json!({"text": c.text, "inputs": inputs, "root": c.root}));
        }
    }
}
