//! C11: every (text, boundary position) pair up to a length bound, through the real
//! PrettyParseError::from_parse_error, against two `str` one-liners.

use crate::util::*;
use peginator::{ParseError, ParseErrorSpecifics, PrettyParseError};
use refpeg::corpus::Tier;
use refpeg::enumerate::{piece_strings, strings};
use serde_json::json;
use std::panic::{catch_unwind, AssertUnwindSafe};

pub fn expected(text: &str, pos: usize, file: Option<&str>) -> (usize, usize, String, String, String) {
    let line = 1 + text[..pos].matches('\n').count();
    let line_start = text[..pos].rfind('\n').map(|i| i + 1).unwrap_or(0);
    let col = 1 + text[line_start..pos].chars().count();
    let line_end = text[line_start..].find('\n').map(|i| i + line_start).unwrap_or(text.len());
    let the_line = text[line_start..line_end].to_string();
    let loc = match file {
        Some(f) => format!("{f}:{line}:{col}"),
        None => format!("Line {line} character {col}"),
    };
    let caret = format!("{}^", " ".repeat(col - 1));
    (line, col, loc, the_line, caret)
}

/// every kind of error a parser can report (the location must not depend on it)
fn kinds() -> Vec<ParseErrorSpecifics> {
    vec![
        ParseErrorSpecifics::ExpectedAnyCharacter,
        ParseErrorSpecifics::ExpectedCharacter { c: 'x' },
        ParseErrorSpecifics::ExpectedCharacterRange { from: 'a', to: 'z' },
        ParseErrorSpecifics::ExpectedString { s: "let" },
        ParseErrorSpecifics::ExpectedCharacterClass { name: "Letter" },
        ParseErrorSpecifics::ExpectedEoi,
        ParseErrorSpecifics::NegativeLookaheadFailed,
        ParseErrorSpecifics::CheckFunctionFailed { function_name: "f" },
        ParseErrorSpecifics::ExternRuleFailed { error_string: "no" },
        ParseErrorSpecifics::LeftRecursionSentinel,
    ]
}

fn check_one(st: &mut Stats, text: &str, pos: usize, file: Option<&str>, colors: bool) {
    check_kind(st, text, pos, file, colors, ParseErrorSpecifics::ExpectedEoi)
}

fn check_kind(st: &mut Stats, text: &str, pos: usize, file: Option<&str>, colors: bool, specifics: ParseErrorSpecifics) {
    st.evaluations += 1;
    colored::control::set_override(colors);
    let err = ParseError { position: pos, specifics };
    let r = catch_unwind(AssertUnwindSafe(|| PrettyParseError::from_parse_error(&err, text, file).to_string()));
    let (line, col, loc, the_line, caret) = expected(text, pos, file);
    if line > 1 || col > 1 {
        st.nontrivial += 1;
    }
    let shown: String = if text.len() > 300 { format!("{}...({} bytes)", text.chars().take(40).collect::<String>(), text.len()) } else { text.to_string() };
    let fields = |actual: String| json!({"text": shown, "position": pos, "file": file, "colors": colors,
        "input": format!("{:?}@{}", shown, pos),
        "expected": format!("location {loc:?}, line of {} chars, caret under column {col}", the_line.chars().count()), "actual": actual.chars().take(400).collect::<String>()});
    match r {
        Err(p) => st.violation("C11", "panic", fields(format!("panic: {}", panic_message(p)))),
        Ok(s) => {
            let plain = strip_ansi(&s);
            st.outcome(&plain);
            st.sample(|| json!({"text": text, "position": pos, "file": file, "output": plain}));
            let lines: Vec<&str> = plain.split('\n').collect();
            // layout: message / "--> " location / " |  " / " |  " line / " |  " caret / ""
            let gutter = " |  ";
            let ok = lines.len() >= 5
                && lines[1] == format!("--> {loc}")
                && lines[2].trim_end() == gutter.trim_end()
                && lines[3].strip_prefix(gutter).map(|l| l.trim_end() == the_line.trim_end()).unwrap_or(false)
                && lines[4].strip_prefix(gutter).map(|l| l == caret).unwrap_or(false);
            if !ok {
                st.violation("C11", "wrong-location", fields(plain));
            }
        }
    }
}

pub fn run(tier: Tier) {
    std::panic::set_hook(Box::new(|_| {}));
    let mut st = Stats::new();
    let len = if tier == Tier::Quick { 5 } else { 7 };
    let alphabet = ['a', 'é', '\n', ' ', '😀', '\r'];
    let texts = strings(&alphabet, len);
    let mut pairs = 0u64;
    for t in &texts {
        for pos in 0..=t.len() {
            if !t.is_char_boundary(pos) {
                continue;
            }
            pairs += 1;
            for file in [None, Some("src/g.ebnf")] {
                check_one(&mut st, t, pos, file, false);
            }
            // colours forced on (what the CLI and run_exit_on_error do) on a thinner slice
            if t.chars().count() <= len - 1 {
                check_one(&mut st, t, pos, None, true);
            }
        }
    }
    // a second alphabet: characters that Unicode calls white space (trimmed by str::trim_end) in 1, 2 and 3 bytes
    let alphabet2 = ['a', '\n', ' ', '\u{a0}', '\u{3000}', '\u{85}', '\t'];
    let texts2 = strings(&alphabet2, len);
    for t in &texts2 {
        for pos in 0..=t.len() {
            if !t.is_char_boundary(pos) {
                continue;
            }
            pairs += 1;
            for file in [None, Some("src/g.ebnf")] {
                check_one(&mut st, t, pos, file, false);
            }
        }
    }
    // a third alphabet: characters a terminal does not show as a column of their own (byte order mark, zero width
    // space, combining accent): they are characters of the line like any other, at the start of the text too
    let alphabet3 = ['a', '\n', ' ', '\u{feff}', '\u{200b}', '\u{301}'];
    let texts4 = strings(&alphabet3, len);
    for t in &texts4 {
        for pos in 0..=t.len() {
            if !t.is_char_boundary(pos) {
                continue;
            }
            pairs += 1;
            st.bump("invisible_character_pairs", 1);
            for file in [None, Some("src/g.ebnf")] {
                check_one(&mut st, t, pos, file, false);
            }
        }
    }
    // every kind of error on the shorter texts of both alphabets (the location is a function of text and position only)
    for t in texts.iter().chain(texts2.iter()).filter(|t| t.chars().count() + 1 <= len) {
        for pos in 0..=t.len() {
            if !t.is_char_boundary(pos) {
                continue;
            }
            for k in kinds() {
                pairs += 1;
                st.bump("error_kind_pairs", 1);
                check_kind(&mut st, t, pos, if pos % 2 == 0 { None } else { Some("g.ebnf") }, false, k);
            }
        }
    }
    // longer texts made of pieces: line breaks next to vertical tab / form feed / CR LF, multi-byte pieces, so that
    // line starts fall on every offset modulo 8 (word-at-a-time scanning)
    let texts3 = piece_strings(&["\n", "\u{b}", "\u{c}", "abc", "\u{3000}é", "\r\n"], len);
    for t in &texts3 {
        for pos in 0..=t.len() {
            if !t.is_char_boundary(pos) {
                continue;
            }
            pairs += 1;
            st.bump("piece_text_pairs", 1);
            check_one(&mut st, t, pos, if pos % 2 == 0 { None } else { Some("g.ebnf") }, false);
        }
    }
    // histories: the same calls with every text written into ONE reused buffer (same address, same capacity), in
    // enumeration order; and every ordered pair of short texts of equal byte length, the second read right after the first
    let mut buf = String::with_capacity(256);
    for t in texts.iter().chain(texts2.iter()) {
        buf.clear();
        buf.push_str(t);
        for pos in 0..=buf.len() {
            if buf.is_char_boundary(pos) {
                pairs += 1;
                st.bump("reused_buffer_calls", 1);
                check_one(&mut st, &buf, pos, None, false);
            }
        }
    }
    let short: Vec<&String> = texts.iter().chain(texts2.iter()).filter(|t| t.chars().count() <= 3 && !t.is_empty()).collect();
    for a in &short {
        for b2 in &short {
            if a.len() != b2.len() || a == b2 {
                continue;
            }
            for pos in 0..=b2.len() {
                if !b2.is_char_boundary(pos) {
                    continue;
                }
                buf.clear();
                buf.push_str(a);
                check_one(&mut st, &buf, a.len(), None, false);
                buf.clear();
                buf.push_str(b2);
                pairs += 1;
                st.bump("reused_buffer_pairs", 1);
                check_one(&mut st, &buf, pos, None, false);
            }
        }
    }
    // long lines
    let longs: Vec<usize> = if tier == Tier::Quick { vec![200] } else { vec![200, 1000, 5000] };
    for n in longs {
        for unit in ["a", "é", "ab \n", "😀é"] {
            let t: String = unit.repeat(n / unit.chars().count());
            for pos in 0..=t.len() {
                if t.is_char_boundary(pos) {
                    pairs += 1;
                    check_one(&mut st, &t, pos, Some("f"), false);
                }
            }
        }
    }
    // very long lines: columns around 2^16 (format width limits), selected positions only (each call is O(len))
    for n in [65_534usize, 65_535, 65_536, 65_537, 70_000, 200_000] {
        for unit in ["a", "é"] {
            let line: String = unit.repeat(n);
            for t in [line.clone(), format!("x\n{line}\ny")] {
                let start = t.find(unit).unwrap();
                let w = unit.len();
                for col in [0usize, 1, 65_533, 65_534, 65_535, 65_536, 65_537, n - 1, n] {
                    if col > n {
                        continue;
                    }
                    let pos = start + col * w;
                    pairs += 1;
                    check_one(&mut st, &t, pos, None, false);
                    st.bump("very_long_line_pairs", 1);
                }
            }
        }
    }
    st.finish(json!({"texts": texts.len() + texts2.len() + texts3.len() + texts4.len(), "pairs": pairs, "alphabet": format!("{:?}", alphabet), "second_alphabet": format!("{:?}", alphabet2), "third_alphabet": format!("{:?}", alphabet3), "max_len": len}));
}
