//! C15: the grammar compiler always answers (code or an error value), and failures are visible.
//!
//! parent:  tools c15 <tier> <cli-binary>
//! worker:  tools c15w <family> <tier> <shard> <nshards> <start> <progress-file>
//!
//! Texts are evaluated by the REAL front end + code generator inside worker processes; the worker
//! writes the index of the text it is about to evaluate into a progress file, so that a stack
//! overflow / abort / hang is pinned to one text by the parent, recorded, and the worker restarted.

use crate::util::*;
use peginator_codegen::{CodegenGrammar, CodegenSettings, Compile, Grammar as RealGrammar};
use refpeg::ast::*;
use refpeg::corpus::Tier;
use refpeg::enumerate::*;
use refpeg::print::{grammar_text, grammar_tokens};
use serde_json::{json, Value};
use std::io::{Read, Write};
use std::os::unix::fs::FileExt;
use std::panic::{catch_unwind, AssertUnwindSafe};
use std::process::{Command, Stdio};
use std::str::FromStr;

pub const TOKENS: [&str; 22] = [
    "A", "b", "1", "=", ";", "|", ":", "@", "*", ">", "'x'", "(", ")", "[", "]", "{", "}", "!", "$", "..", " ", "self",
];

#[derive(Clone, Debug, PartialEq)]
pub enum Out {
    Code,
    Err(String),
    Panic(String),
}

pub fn derive_sets() -> Vec<Option<Vec<String>>> {
    let v = |xs: &[&str]| Some(xs.iter().map(|s| s.to_string()).collect::<Vec<_>>());
    vec![None, v(&[]), v(&["Debug"]), v(&["Clone"]), v(&["Debug", "Clone", "PartialEq", "Eq"])]
}

/// names a derive set may contain: traits, paths of traits, and strings that are neither
pub const DERIVE_NAMES: [&str; 18] = [
    "Debug", "Clone", "PartialEq", "std::hash::Hash", "serde::Serialize", "::core::fmt::Debug", "", " ", "1x", "Debug Clone", "Clone,", "a-b", "Clone::", "r#try",
    "self", "é", "Debug<T>", "#[x]",
];

/// every derive set of one or two DERIVE_NAMES (ordered)
pub fn derive_name_sets() -> Vec<Option<Vec<String>>> {
    let mut out = Vec::new();
    for a in DERIVE_NAMES {
        out.push(Some(vec![a.to_string()]));
        for b in DERIVE_NAMES {
            out.push(Some(vec![a.to_string(), b.to_string()]));
        }
    }
    out
}

fn is_trait_path(name: &str) -> bool {
    let n = name.strip_prefix("::").unwrap_or(name);
    !n.is_empty() && n.split("::").all(|p| !p.is_empty() && p.chars().all(|c| c.is_ascii_alphanumeric() || c == '_') && !p.chars().next().unwrap().is_ascii_digit() && p != "self")
}

pub fn compile(text: &str, derives: &Option<Vec<String>>) -> Out {
    let r = catch_unwind(AssertUnwindSafe(|| -> Result<(), String> {
        let g = RealGrammar::from_str(text).map_err(|e| format!("parse error at {}", e.position))?;
        let mut s = CodegenSettings::default();
        if let Some(d) = derives {
            s.derives = d.clone();
        }
        g.generate_code(&s).map_err(|e| format!("{e:#}"))?;
        Ok(())
    }));
    match r {
        Ok(Ok(())) => Out::Code,
        Ok(Err(e)) => Out::Err(e),
        Err(p) => Out::Panic(panic_message(p)),
    }
}

// ------------------------------------------------------------------------------------ families

/// number of token strings of length <= n
fn token_space(n: usize) -> u64 {
    let k = TOKENS.len() as u64;
    (0..=n as u32).map(|l| k.pow(l)).sum()
}

pub fn token_text_pub(idx: u64, n: usize) -> String {
    token_text(idx, n)
}

fn token_text(mut idx: u64, n: usize) -> String {
    let k = TOKENS.len() as u64;
    let mut len = 0;
    loop {
        let c = k.pow(len as u32);
        if idx < c {
            break;
        }
        idx -= c;
        len += 1;
        assert!(len <= n);
    }
    let mut toks = Vec::with_capacity(len);
    for _ in 0..len {
        toks.push(TOKENS[(idx % k) as usize]);
        idx /= k;
    }
    toks.reverse();
    toks.concat()
}

fn mutation_menu() -> Vec<&'static str> {
    vec![
        "A", "Root", "x", "char", "1", "=", ";", "|", ":", "@", "*", ">", "'x'", "\"y\"", "i'z'", "(", ")", "[", "]", "{", "}", "+", "!", "&", "$", "..",
        "@export", "@string", "@char", "@memoize", "@leftrec", "@position", "@no_skip_ws", "@check(a::b)", "@extern(a::b)", "self", "fn", "'\\u{110000}'", "'\\uD800'", "#",
    ]
}

fn base_grammars(tier: Tier) -> Vec<Grammar> {
    let mut out: Vec<Grammar> = Vec::new();
    let take = |cases: Vec<refpeg::corpus::Case>, n: usize, out: &mut Vec<Grammar>| {
        let step = (cases.len() / n).max(1);
        for c in cases.into_iter().step_by(step).take(n) {
            out.push(c.grammar);
        }
    };
    let n = if tier == Tier::Quick { 8 } else { 40 };
    take(refpeg::corpus::build("C02", Tier::Quick), n, &mut out);
    take(refpeg::corpus::build("C08", Tier::Quick), n, &mut out);
    take(refpeg::corpus::build("C14", Tier::Quick), n, &mut out);
    take(refpeg::corpus::build("C07", Tier::Quick), n, &mut out);
    take(refpeg::corpus::build("C05", Tier::Quick), n, &mut out);
    take(refpeg::corpus::build("C01", Tier::Quick), n, &mut out);
    out
}

/// (text, expectation) — expectation: Some(true) must be rejected, None: any answer
pub fn mutations(tier: Tier) -> Vec<(String, Option<bool>, String)> {
    let mut out = Vec::new();
    let menu = mutation_menu();
    for g in base_grammars(tier) {
        let toks: Vec<String> = grammar_tokens(&g).into_iter().map(|t| t.s).collect();
        let join = |v: &[String]| v.join(" ");
        out.push((join(&toks), None, "unmutated".to_string()));
        for i in 0..toks.len() {
            let mut d = toks.clone();
            d.remove(i);
            out.push((join(&d), None, format!("delete token {i}")));
            let mut d = toks.clone();
            d.insert(i, toks[i].clone());
            out.push((join(&d), None, format!("duplicate token {i}")));
            for m in &menu {
                let mut d = toks.clone();
                d[i] = m.to_string();
                out.push((join(&d), None, format!("replace token {i} by {m}")));
            }
        }
    }
    out
}

/// the restriction catalogue: every entry must be rejected with an error value
pub fn catalogue(tier: Tier) -> Vec<(String, Option<bool>, String)> {
    let mut out: Vec<(String, Option<bool>, String)> = Vec::new();
    let k = if tier == Tier::Quick { 2 } else { 3 };
    let ctxs = contexts(&[lit("b")], &NO_LOOKAHEAD_OPS, k);
    let x = Rule::normal("X", vec![], lit("x"));
    let y = Rule::normal("Y", vec![], lit("y"));
    let root = |dirs: Vec<Directive>, body: Expr, extra: Vec<Rule>| -> String {
        let mut rules = vec![Rule::normal("Root", dirs, body)];
        rules.extend(extra);
        rules.push(x.clone());
        rules.push(y.clone());
        grammar_text(&Grammar { rules })
    };
    for c in &ctxs {
        // fields in lookaheads
        for la in [not(field("f", "X")), and(field("f", "X")), not(seq(vec![lit("b"), over("X")])), and(opt(field("f", "X")))] {
            out.push((root(vec![Directive::Export], fill(c, &la), vec![]), Some(true), "field inside lookahead".into()));
        }
        // fields that reach a lookahead through an include
        for la in [not(inc("K")), and(inc("K")), not(seq(vec![lit("b"), inc("K")])), not(opt(inc("K"))), not(inc("K2"))] {
            out.push((
                root(vec![Directive::Export], fill(c, &la), vec![Rule::normal("K", vec![], seq(vec![field("kw", "X"), lit("k")])), Rule::normal("K2", vec![], seq(vec![lit("k"), inc("K")]))]),
                Some(true),
                "field inside lookahead (through an include)".into(),
            ));
        }
        // @: mixed with named fields
        out.push((root(vec![Directive::Export], seq(vec![fill(c, &over("X")), field("g", "Y")]), vec![]), Some(true), "@: mixed with named field".into()));
        out.push((root(vec![], seq(vec![field("g", "Y"), fill(c, &over("X"))]), vec![]), Some(true), "@: mixed with named field".into()));
        // include of missing / @char / @extern rule
        out.push((root(vec![Directive::Export], fill(c, &inc("Missing")), vec![]), Some(true), "include of a missing rule".into()));
        out.push((
            root(vec![Directive::Export], fill(c, &inc("Ch")), vec![Rule::chr("Ch", vec![CharPart::Char(LitChar::canon('q'))])]),
            Some(true),
            "include of a @char rule".into(),
        ));
        out.push((root(vec![Directive::Export], fill(c, &inc("Ex")), vec![Rule::ext("Ex", "a::b", None)]), Some(true), "include of an @extern rule".into()));
        // non-ASCII case-insensitive literals
        for l in ["é", "aé", "éa", "K\u{212A}"] {
            out.push((root(vec![Directive::Export], fill(c, &ilit(l)), vec![]), Some(true), "non-ASCII case-insensitive literal".into()));
        }
        // include cycles of length 1..3
        out.push((root(vec![Directive::Export], fill(c, &inc("Root")), vec![]), Some(true), "include cycle of length 1".into()));
        out.push((
            root(vec![Directive::Export], fill(c, &inc("P")), vec![Rule::normal("P", vec![], seq(vec![lit("p"), inc("Root")]))]),
            Some(true),
            "include cycle of length 2".into(),
        ));
        out.push((
            root(
                vec![Directive::Export],
                fill(c, &inc("P")),
                vec![Rule::normal("P", vec![], opt(inc("Q"))), Rule::normal("Q", vec![], choice(vec![lit("q"), inc("Root")]))],
            ),
            Some(true),
            "include cycle of length 3".into(),
        ));
    }
    // non-ASCII characters inside case-insensitive literals in every escape spelling (\xE9, \u00E9, \u{e9}, ...)
    for ch in ['\u{80}', 'é', '\u{ff}', '\u{100}', '€', '😀'] {
        for sp in refpeg::corpus::e1::spellings_for(ch) {
            for dq in [false, true] {
                let l = LitChar { c: ch, sp: sp.clone() };
                for chars in [vec![l.clone()], vec![LitChar::canon('a'), l.clone()], vec![l.clone(), LitChar::canon('z')], vec![LitChar::canon('a'), l.clone(), LitChar::canon('z')]] {
                    let e = Expr::Lit { chars, insensitive: true, dq };
                    out.push((root(vec![Directive::Export], e.clone(), vec![]), Some(true), "non-ASCII case-insensitive literal written with an escape".into()));
                    out.push((root(vec![Directive::Export], seq(vec![lit("b"), opt(e)]), vec![]), Some(true), "non-ASCII case-insensitive literal written with an escape".into()));
                }
            }
        }
    }
    // include cycles reached from a rule that is not itself on the cycle, in both file orders
    for (a, bb) in [("S = > A ;\nA = > B ;\nB = > A ;", "tail into a cycle of length 2"), ("S = > A ;\nA = 'a' [ > A ] ;", "tail into a self-include"),
        ("A = 'a' [ > A ] ;\nS = > A ;", "tail into a self-include, cycle first"), ("@export S = 'x' { > P } ;\nP = 'p' > Q ;\nQ = 'q' | > R ;\nR = > P ;", "tail into a cycle of length 3")] {
        out.push((a.to_string(), Some(true), format!("include cycle: {bb}")));
    }
    // multi-type @: under optional / closure / missing in an arm
    for body in [
        opt(choice(vec![over("X"), over("Y")])),
        star(choice(vec![over("X"), over("Y")])),
        choice(vec![over("X"), over("Y"), lit("b")]),
        seq(vec![over("X"), over("Y")]),
        plus(choice(vec![over("X"), over("Y")])),
    ] {
        out.push((root(vec![], body, vec![]), Some(true), "multi-type @: not exactly once".into()));
    }
    // @export / @position on a plain override; @string @export; skipping Whitespace; memoize without Clone is per derive set
    out.push((root(vec![Directive::Export], over("X"), vec![]), Some(true), "@export on a plain override".into()));
    out.push((root(vec![Directive::Position], seq(vec![lit("b"), over("X")]), vec![]), Some(true), "@position on a plain override".into()));
    out.push((root(vec![Directive::String, Directive::Export], lit("b"), vec![]), Some(true), "@string with @export".into()));
    out.push((root(vec![Directive::Export, Directive::String], lit("b"), vec![]), Some(true), "@string with @export".into()));
    out.push((
        root(vec![Directive::Export], lit("b"), vec![Rule::normal("Whitespace", vec![], star(lit(" ")))]),
        Some(true),
        "skipping Whitespace rule".into(),
    ));
    // invalid code points and surrogates in every escape form
    for esc in [
        "\\u{110000}", "\\u{D800}", "\\u{DFFF}", "\\u{FFFFFF}", "\\uD800", "\\uDBFF", "\\uDFFF", "\\U0000D800", "\\U00110000", "\\U00FFFFFF", "\\u{d800}",
    ] {
        out.push((format!("@export Root = '{esc}' ;"), Some(true), format!("invalid code point {esc} in a literal")));
        out.push((format!("@export Root = 'a{esc}b' ;"), Some(true), format!("invalid code point {esc} in a literal")));
        out.push((format!("@export Root = \"{esc}\" ;"), Some(true), format!("invalid code point {esc} in a literal")));
        out.push((format!("@export Root = '{esc}' .. 'z' ;"), Some(true), format!("invalid code point {esc} in a range")));
        out.push((format!("@export Root = 'a' .. '{esc}' ;"), Some(true), format!("invalid code point {esc} in a range")));
        out.push((format!("@export Root = c:C ;\n@char C = '{esc}' ;"), Some(true), format!("invalid code point {esc} in a @char rule")));
        out.push((format!("@export Root = c:C ;\n@char C = 'a' .. '{esc}' ;"), Some(true), format!("invalid code point {esc} in a @char rule")));
    }
    // names that cannot become identifiers
    for name in ["self", "Self", "super", "crate", "1x", "1", "_"] {
        // no documented restriction: any answer is fine, but it must be an answer
        out.push((format!("@export Root = f:{name} ;\n{name} = 'x' ;"), None, format!("rule name {name}")));
        out.push((format!("@export Root = {name}:X ;\nX = 'x' ;"), None, format!("field name {name}")));
        out.push((format!("@export {name} = 'x' ;"), None, format!("rule name {name}")));
    }
    for path in ["1::f", "a b::f", "<::f", "a::1", "::f", "a::"] {
        out.push((format!("@check({path})\n@export Root = 'x' ;"), None, format!("check path {path}")));
        out.push((format!("@export Root = e:E ;\n@extern({path}) E ;"), None, format!("extern path {path}")));
    }
    out
}

/// characters of a path segment: identifier characters, characters std calls alphabetic / alphanumeric that
/// are not XID_Start / XID_Continue (superscript two, circled one, fraction, combining iota, Hebrew point),
/// XID characters outside ASCII, and the usual offenders
pub const PATH_CHARS: [char; 16] = ['a', '1', '_', 'é', '²', '①', '¼', '\u{345}', '\u{5b0}', 'ⅷ', ' ', '<', '#', '.', '\'', '\u{200d}'];

/// every path `m::<seg>` / `<seg>::f` with a segment of 1..=max_len PATH_CHARS, at every site a path can be written
pub fn paths(tier: Tier) -> Vec<(String, Option<bool>, String)> {
    let max_len = if tier == Tier::Quick { 2 } else { 3 };
    let mut out = Vec::new();
    for seg in refpeg::enumerate::strings(&PATH_CHARS, max_len).into_iter().skip(1) {
        let shown: String = seg.escape_unicode().to_string();
        for path in [format!("m::{seg}"), format!("{seg}::f"), seg.clone()] {
            let why = format!("path segment {shown}");
            out.push((format!("@check({path})\n@export Root = 'x' ;"), None, why.clone()));
            out.push((format!("@export Root = c:C ;\n@check({path})\n@char C = 'x' ;"), None, why.clone()));
            out.push((format!("@export Root = e:E ;\n@extern({path}) E ;"), None, why.clone()));
            out.push((format!("@export Root = e:E ;\n@extern(m::f -> {path}) E ;"), None, why.clone()));
        }
    }
    out
}

/// every sequence of two or three rule definitions over two names and five bodies: the same name defined
/// more than once, with include cycles through the first, the last or no definition of a name
pub fn duplicates() -> Vec<(String, Option<bool>, String)> {
    let names = ["A", "B"];
    let bodies = ["> A 'a'", "> B 'b'", "'x'", "f : A", "[ > B ] 'y'"];
    let defs: Vec<String> = names.iter().flat_map(|n| bodies.iter().map(move |b| format!("{n} = {b} ;\n"))).collect();
    let mut out = Vec::new();
    for a in &defs {
        for b in &defs {
            out.push((format!("{a}{b}"), None, "rule definitions with repeated names".to_string()));
            for c in &defs {
                out.push((format!("{a}{b}{c}"), None, "rule definitions with repeated names".to_string()));
            }
        }
    }
    out
}

/// depths of the nesting family; texts are generated, not stored: (construct, depth)
pub const NEST_DEPTHS: [usize; 5] = [8, 64, 512, 16384, 131072];
pub const NEST_KINDS: [(&str, &str, &str); 14] = [
    ("paren", "( ", " )"),
    ("optional", "[ ", " ]"),
    ("closure", "{ ", " }"),
    ("not", "! ", ""),
    ("and", "& ", ""),
    ("mixed", "( [ { ! ", " } ] )"),
    ("choice-in-paren", "( 'x' | ", " )"),
    ("choice-in-optional", "[ 'x' | ", " ]"),
    ("choice-in-closure", "{ 'x' | ", " } 'y'"),
    ("choice-in-not", "!( 'x' | ", " )"),
    ("sequence-in-paren", "( 'x' ", " 'y' )"),
    ("field-choice-in-paren", "( f:X | ", " )"),
    ("two-fields-choice-in-paren", "( f:X g:X | ", " )"),
    ("choice-of-optionals", "( [ 'x' ] | [ ", " ] )"),
];

/// one construct nested `depth` times around a literal
pub fn nesting() -> Vec<(String, Option<bool>, String)> {
    let mut out = Vec::new();
    for (kn, open, close) in NEST_KINDS {
        for d in NEST_DEPTHS {
            let reps = if kn == "mixed" { d / 4 } else { d };
            out.push((format!("@export Root = {}'a'{} ;\nX = 'z' ;\n", open.repeat(reps), close.repeat(reps)), None, format!("{kn} nested to depth {d}")));
        }
    }
    out
}

/// `@memoize` / `@leftrec` on every kind of rule; judged per derive set: without Clone a `@memoize` rule must be
/// rejected, with Clone every entry must be accepted
pub fn memo_clone() -> Vec<(String, Option<bool>, String)> {
    let kinds = [
        ("struct", "", "f:X [ g:X ]"),
        ("struct-position", "@position ", "f:X"),
        ("string", "@string ", "'m' { 'n' }"),
        ("string-position", "@string @position ", "'m'"),
        ("position-string", "@position @string @no_skip_ws ", "'m'"),
        ("enum", "", "@:X | @:Y"),
        ("alias", "", "'(' @:X ')'"),
        ("unit", "", "'m'"),
    ];
    let mut out = Vec::new();
    for (kn, dirs, body) in kinds {
        for memo in ["@memoize", "@leftrec"] {
            for front in [true, false] {
                let d = if front { format!("{memo} {dirs}") } else { format!("{dirs}{memo} ") };
                out.push((format!("@export Root = m:M ;\n{d}M = {body} ;\nX = 'x' ;\nY = 'y' ;\n"), None, format!("{memo} on a {kn} rule")));
            }
        }
    }
    out
}

/// grammars that must be ACCEPTED (guards against "reject everything")
pub fn must_accept() -> Vec<(String, Option<bool>, String)> {
    let mut out = Vec::new();
    for path in ["crate::f", "self::f", "super::f", "a::b::c", "crate::m::Self_"] {
        out.push((format!("@check({path})\n@export Root = 'x' ;"), Some(false), format!("check path {path} is a valid Rust path")));
        out.push((format!("@export Root = e:E ;\n@extern({path} -> {path}) E ;"), Some(false), format!("extern path {path} is a valid Rust path")));
    }
    for name in ["fn", "match", "r", "type", "_a", "a1", "Box", "async", "try", "dyn"] {
        out.push((format!("@export Root = {name}:X ;\nX = 'x' ;"), Some(false), format!("field name {name} is usable (raw identifier if needed)")));
        out.push((format!("@export Root = f:{name} ;\n{name} = 'x' ;"), Some(false), format!("rule name {name} is usable (raw identifier if needed)")));
    }
    out.push(("@export Root = >A ;\nA = 'a' >B ;\nB = 'b' [ >C ] ;\nC = 'c' ;".into(), Some(false), "include chain without a cycle".into()));
    out.push(("@export Root = >A >A ;\nA = 'a' ;".into(), Some(false), "same include twice".into()));
    out.push(("@export Root = >A | >B ;\nA = 'a' >C ;\nB = 'b' >C ;\nC = c:char ;".into(), Some(false), "diamond of includes".into()));
    out
}

fn family(name: &str, tier: Tier) -> Vec<(String, Option<bool>, String)> {
    match name {
        "mutations" => mutations(tier),
        "paths" => paths(tier),
        "duplicates" => duplicates(),
        "memo-clone" => memo_clone(),
        "nesting" => nesting(),
        // valid grammars of every rule kind, compiled under every derive set of one or two DERIVE_NAMES
        "derives" => vec![
            ("@export Root = a:A [ b:B ] ;\nA = 'a' ;\n@string B = 'b' ;\n".to_string(), None, "derive names".to_string()),
            ("@export Root = e:E ;\nE = @:A | @:B ;\nA = 'a' ;\n@position B = 'b' ;\n".to_string(), None, "derive names".to_string()),
            ("@export Root = f:A | f:B ;\n@position @string A = 'a' ;\n@char B = 'b' ;\n".to_string(), None, "derive names".to_string()),
        ],
        "catalogue" => {
            let mut v = catalogue(tier);
            v.extend(must_accept());
            v
        }
        _ => panic!("family"),
    }
}

fn family_len(name: &str, tier: Tier) -> u64 {
    match name {
        "tokens" => token_space(if tier == Tier::Quick { 4 } else { 5 }),
        other => family(other, tier).len() as u64,
    }
}

fn family_text(name: &str, tier: Tier, idx: u64) -> String {
    match name {
        "tokens" => token_text(idx, if tier == Tier::Quick { 4 } else { 5 }),
        other => family(other, tier)[idx as usize].0.clone(),
    }
}

// ------------------------------------------------------------------------------------ worker

/// the compiler runs on a thread with a fixed 8 MiB stack, so that what "too deep" means does not depend on the
/// caller's `ulimit -s`
pub fn worker(args: &[String]) {
    let args: Vec<String> = args.to_vec();
    std::thread::Builder::new().stack_size(8 << 20).spawn(move || worker_body(&args)).unwrap().join().unwrap();
}

fn worker_body(args: &[String]) {
    std::panic::set_hook(Box::new(|_| {}));
    let fam = args[0].as_str();
    let tier = Tier::parse(&args[1]);
    let shard: u64 = args[2].parse().unwrap();
    let nshards: u64 = args[3].parse().unwrap();
    let start: u64 = args[4].parse().unwrap();
    let progress = std::fs::OpenOptions::new().write(true).create(true).truncate(false).open(&args[5]).unwrap();
    let mut st = Stats::new();
    st.max_viol = 40;
    let dsets = derive_sets();
    let listed: Option<Vec<(String, Option<bool>, String)>> = if fam == "tokens" { None } else { Some(family(fam, tier)) };
    let total = family_len(fam, tier);
    let ntok = if tier == Tier::Quick { 4 } else { 5 };
    let mut idx = start;
    // align to this shard
    while idx % nshards != shard {
        idx += 1;
    }
    while idx < total {
        progress.write_all_at(&idx.to_le_bytes(), 0).unwrap();
        let (text, expect, why) = match &listed {
            None => (token_text(idx, ntok), None, String::new()),
            Some(l) => l[idx as usize].clone(),
        };
        // the catalogue is run under every derive set; the big spaces under the default one
        let name_sets;
        let sets: &[Option<Vec<String>>] = if fam == "catalogue" || fam == "memo-clone" {
            &dsets
        } else if fam == "derives" {
            name_sets = derive_name_sets();
            &name_sets
        } else {
            &dsets[..1]
        };
        for d in sets {
            // a derive set made of trait paths only must be accepted for a valid grammar
            let expect = if fam == "derives" && d.as_ref().unwrap().iter().all(|n| is_trait_path(n)) { Some(false) } else { expect };
            let has_clone = d.as_ref().map(|v| v.iter().any(|x| x == "Clone")).unwrap_or(true);
            let expect = if fam == "memo-clone" {
                if has_clone {
                    Some(false)
                } else if text.contains("@memoize") {
                    Some(true)
                } else {
                    None
                }
            } else {
                expect
            };
            st.evaluations += 1;
            let out = compile(&text, d);
            match &out {
                Out::Code => {
                    st.nontrivial += 1;
                    st.bump("answers_code", 1);
                }
                Out::Err(e) => {
                    if !e.starts_with("parse error") {
                        st.nontrivial += 1;
                        st.bump("answers_codegen_error", 1);
                    } else {
                        st.bump("answers_parse_error", 1);
                    }
                }
                Out::Panic(_) => {}
            }
            st.outcome(&format!("{:?}", out));
            st.sample(|| json!({"family": fam, "text": text, "derives": d, "answer": format!("{:?}", out).chars().take(120).collect::<String>()}));
            let fields = |actual: String, expected: &str| json!({"grammar": text, "input": null, "family": fam, "derives": d, "why": why, "expected": expected, "actual": actual, "index": idx});
            match (&out, expect) {
                (Out::Panic(m), _) => st.violation("C15", "compiler-panic", fields(format!("panic: {m}"), "code or an error value")),
                (Out::Code, Some(true)) => st.violation("C15", "restricted-grammar-accepted", fields("code generated".into(), &format!("an error ({why})"))),
                (Out::Err(e), Some(false)) => st.violation("C15", "valid-grammar-rejected", fields(format!("error: {e}"), &format!("code ({why})"))),
                _ => {}
            }
            // memoize without Clone must be rejected, with Clone accepted or rejected for other reasons
            if fam == "catalogue" && d.as_ref().map(|v| !v.iter().any(|x| x == "Clone")).unwrap_or(false) {
                let mtext = format!("@memoize M = 'm' ;\n{text}");
                st.evaluations += 1;
                match compile(&mtext, d) {
                    Out::Code => st.violation("C15", "restricted-grammar-accepted", json!({"grammar": mtext, "input": null, "family": fam, "derives": d,
                        "why": "@memoize without Clone", "expected": "an error (@memoize without Clone in the derive set)", "actual": "code generated", "index": idx})),
                    Out::Panic(m) => st.violation("C15", "compiler-panic", json!({"grammar": mtext, "input": null, "family": fam, "derives": d,
                        "why": "@memoize without Clone", "expected": "code or an error value", "actual": format!("panic: {m}"), "index": idx})),
                    Out::Err(_) => {}
                }
            }
        }
        if st.evaluations % 20000 < sets.len() as u64 {
            // incremental stats survive a crash
            emit(json!({"k":"partial","evaluations": st.evaluations}));
        }
        idx += nshards;
    }
    progress.write_all_at(&u64::MAX.to_le_bytes(), 0).unwrap();
    st.finish(json!({"family": fam, "shard": shard}));
}

// ------------------------------------------------------------------------------------ parent

fn run_family(fam: &str, tier: Tier, nshards: u64, st: &mut Stats, all_lines: &mut Vec<Value>) {
    let exe = std::env::current_exe().unwrap();
    let dir = std::env::temp_dir().join(format!("verif-c15-{}", std::process::id()));
    std::fs::create_dir_all(&dir).unwrap();
    let total = family_len(fam, tier);
    let handles: Vec<std::thread::JoinHandle<(Vec<Value>, Vec<Value>)>> = (0..nshards)
        .map(|shard| {
            let exe = exe.clone();
            let fam = fam.to_string();
            let pf = dir.join(format!("{fam}-{shard}.progress"));
            std::thread::spawn(move || {
                let mut lines: Vec<Value> = Vec::new();
                let mut crashes: Vec<Value> = Vec::new();
                let mut start = 0u64;
                let mut restarts = 0;
                loop {
                    let _ = std::fs::remove_file(&pf);
                    let mut child = Command::new(&exe)
                        .args(["c15w", &fam, tier.name(), &shard.to_string(), &nshards.to_string(), &start.to_string(), pf.to_str().unwrap()])
                        .stdout(Stdio::piped())
                        .stderr(Stdio::null())
                        .spawn()
                        .unwrap();
                    let mut out = child.stdout.take().unwrap();
                    // watchdog: kill the worker if the progress index does not change for 20 s
                    let pid = child.id();
                    let pf2 = pf.clone();
                    let done = std::sync::Arc::new(std::sync::atomic::AtomicBool::new(false));
                    let done2 = done.clone();
                    let hung = std::sync::Arc::new(std::sync::atomic::AtomicBool::new(false));
                    let hung2 = hung.clone();
                    let wd = std::thread::spawn(move || {
                        let mut last = u64::MAX - 1;
                        let mut since = std::time::Instant::now();
                        while !done2.load(std::sync::atomic::Ordering::Relaxed) {
                            std::thread::sleep(std::time::Duration::from_millis(250));
                            let cur = read_progress(&pf2);
                            if cur != last {
                                last = cur;
                                since = std::time::Instant::now();
                            } else if since.elapsed().as_secs() >= 20 {
                                hung2.store(true, std::sync::atomic::Ordering::Relaxed);
                                let _ = Command::new("kill").args(["-9", &pid.to_string()]).status();
                                break;
                            }
                        }
                    });
                    let mut buf = String::new();
                    let _ = out.read_to_string(&mut buf);
                    let status = child.wait().unwrap();
                    done.store(true, std::sync::atomic::Ordering::Relaxed);
                    let _ = wd.join();
                    for l in buf.lines() {
                        if let Ok(v) = serde_json::from_str::<Value>(l) {
                            lines.push(v);
                        }
                    }
                    if status.success() {
                        break;
                    }
                    let at = read_progress(&pf);
                    if at == u64::MAX || at >= total {
                        crashes.push(json!({"index": null, "how": format!("worker died outside an evaluation: {status}")}));
                        break;
                    }
                    let how = if hung.load(std::sync::atomic::Ordering::Relaxed) { "hang (no progress for 20 s)".to_string() } else { format!("process died: {status}") };
                    crashes.push(json!({"index": at, "how": how}));
                    start = at + 1;
                    restarts += 1;
                    if restarts > 200 {
                        crashes.push(json!({"index": null, "how": "too many restarts"}));
                        break;
                    }
                }
                (lines, crashes)
            })
        })
        .collect();
    for h in handles {
        let (lines, crashes) = h.join().unwrap();
        let mut counted_partial = 0u64;
        let mut have_stats = false;
        for l in &lines {
            match l["k"].as_str() {
                Some("viol") => {
                    st.violations += 1;
                    all_lines.push(l.clone());
                }
                Some("stats") => {
                    have_stats = true;
                    st.evaluations += l["evaluations"].as_u64().unwrap_or(0);
                    st.nontrivial += l["nontrivial"].as_u64().unwrap_or(0);
                    if let Some(e) = l["extra"].as_object() {
                        for (k, v) in e {
                            st.bump(k, v.as_u64().unwrap_or(0));
                        }
                    }
                    if let Some(s) = l["samples"].as_array() {
                        for x in s.iter().take(2) {
                            if st.samples.len() < 8 {
                                st.samples.push(x.clone());
                            }
                        }
                    }
                    st.bump("distinct_outcomes_sum", l["distinct_outcomes"].as_u64().unwrap_or(0));
                }
                Some("partial") => counted_partial = l["evaluations"].as_u64().unwrap_or(0),
                _ => {}
            }
        }
        if !have_stats {
            st.evaluations += counted_partial;
        }
        for c in crashes {
            st.violations += 1;
            let text = c["index"].as_u64().map(|i| family_text(fam, tier, i)).map(|t| if t.len() > 2000 { format!("{} ... ({} bytes, see `why`)", &t[..200], t.len()) } else { t });
            let why = c["index"].as_u64().filter(|_| fam != "tokens").map(|i| family(fam, tier)[i as usize].2.clone()).unwrap_or_default();
            all_lines.push(json!({"k":"viol","prop":"C15","kind":"compiler-abort-or-hang","grammar": text, "input": null, "family": fam, "why": why,
                "expected": "code or an error value", "actual": c["how"], "index": c["index"]}));
        }
    }
    let _ = std::fs::remove_dir_all(&dir);
}

fn read_progress(p: &std::path::Path) -> u64 {
    match std::fs::read(p) {
        Ok(b) if b.len() >= 8 => u64::from_le_bytes(b[..8].try_into().unwrap()),
        _ => u64::MAX - 1,
    }
}

/// exit status of the real CLI / Compile::run / run_exit_on_error against the library answer
fn routes(tier: Tier, cli: &str, st: &mut Stats, all_lines: &mut Vec<Value>) {
    let dir = std::env::temp_dir().join(format!("verif-c15r-{}", std::process::id()));
    std::fs::create_dir_all(&dir).unwrap();
    let mut entries = catalogue(Tier::Quick);
    entries.extend(must_accept());
    let muts = mutations(Tier::Quick);
    let step = if tier == Tier::Quick { 97 } else { 11 };
    entries.extend(muts.into_iter().step_by(step));
    // one-character path segments at every site
    let npaths = 12 * PATH_CHARS.len();
    entries.extend(paths(Tier::Quick).into_iter().take(npaths));
    // an unreadable grammar
    let exe = std::env::current_exe().unwrap();
    use rayon::prelude::*;
    let results: Vec<(u64, u64, Vec<Value>, Vec<(&'static str, u64)>)> = entries
        .par_iter()
        .enumerate()
        .map(|(i, (text, _, why))| {
            let mut evals = 0u64;
            let mut nontrivial = 0u64;
            let mut lines: Vec<Value> = Vec::new();
            let mut counters: Vec<(&'static str, u64)> = Vec::new();
            // texts that kill the library route are reported by the worker families; skip them here
            let lib = compile_isolated(&exe, text);
            let Some(lib_ok) = lib else {
                counters.push(("routes_skipped_library_died", 1));
                return (evals, nontrivial, lines, counters);
            };
            let gpath = dir.join(format!("g{i}.ebnf"));
            std::fs::write(&gpath, text).unwrap();
            // CLI
            let o = Command::new(cli).arg(&gpath).stdout(Stdio::piped()).stderr(Stdio::piped()).output().unwrap();
            evals += 1;
            counters.push(("cli_runs", 1));
            let cli_ok = o.status.success();
            if lib_ok {
                nontrivial += 1;
            }
            if cli_ok != lib_ok {
                lines.push(json!({"k":"viol","prop":"C15","kind":"cli-exit-status","grammar": text, "input": null, "family":"routes", "why": why,
                    "site": "peginator-cli exit status",
                    "expected": format!("exit status {} (library answer: {})", if lib_ok {"0"} else {"non-zero"}, if lib_ok {"code"} else {"error"}),
                    "actual": format!("exit status {:?}; stdout starts {:?}", o.status.code(), String::from_utf8_lossy(&o.stdout).chars().take(80).collect::<String>())}));
            }
            // Compile::run in a child (isolates panics/aborts), and run_exit_on_error
            for (mode, expect_status) in [("run", if lib_ok { 0 } else { 7 }), ("exit", if lib_ok { 0 } else { 1 }), ("run3", if lib_ok { 0 } else { 7 })] {
                let dest = dir.join(format!("g{i}-{mode}.rs"));
                let o = Command::new(&exe).args(["c15compile", mode, gpath.to_str().unwrap(), dest.to_str().unwrap()]).stdout(Stdio::null()).stderr(Stdio::null()).status().unwrap();
                evals += 1;
                counters.push(("compile_runs", 1));
                if o.code() != Some(expect_status) {
                    lines.push(json!({"k":"viol","prop":"C15","kind": format!("compile-{mode}-status"),"grammar": text, "input": null, "family":"routes", "why": why,
                        "site": format!("Compile::{}", match mode { "run" => "run", "run3" => "run (three times, same destination)", _ => "run_exit_on_error" }),
                        "expected": format!("child status {expect_status} (0 = Ok, 7 = Err from run(), 1 = exit code of run_exit_on_error, 9 = answers differ between repeated runs)"),
                        "actual": format!("{:?}", o.code())}));
                }
            }
            (evals, nontrivial, lines, counters)
        })
        .collect();
    for (e, n, lines, counters) in results {
        st.evaluations += e;
        st.nontrivial += n;
        st.violations += lines.len() as u64;
        all_lines.extend(lines);
        for (k, v) in counters {
            st.bump(k, v);
        }
    }
    directory_layouts(tier, &dir, &exe, st, all_lines);
    stale_destination_histories(&dir, &exe, st, all_lines);
    // missing grammar file
    let o = Command::new(cli).arg(dir.join("does-not-exist.ebnf")).stdout(Stdio::null()).stderr(Stdio::null()).status().unwrap();
    st.evaluations += 1;
    if o.success() {
        st.violations += 1;
        all_lines.push(json!({"k":"viol","prop":"C15","kind":"cli-exit-status","grammar": null, "input": "missing grammar file", "family":"routes",
            "site": "peginator-cli exit status", "expected": "non-zero exit status for an unreadable grammar file", "actual": "exit status 0"}));
    }
    let _ = std::fs::remove_dir_all(&dir);
}

/// Directory mode of the build-script helper: every layout of up to three entries (named so that every listing
/// order of the file system is some layout), each entry a good grammar, a grammar the compiler refuses, another
/// file, or a sub-directory holding a good or a refused grammar. `run()` is Err (run_exit_on_error: status 1)
/// exactly when some grammar below the directory is refused; when it is Ok every good grammar has its output.
fn directory_layouts(tier: Tier, dir: &std::path::Path, exe: &std::path::Path, st: &mut Stats, all_lines: &mut Vec<Value>) {
    const GOOD: &str = "@export R = 'a' x:X; @string X = 'b';";
    let bads: &[&str] = if tier == Tier::Quick { &["@export R = 'a' >Missing;"] } else { &["@export R = 'a' >Missing;", "@export R = 'a' x:X", "@export @string R = 'a';"] };
    // the library answer is the oracle for what "refused" means (the catalogue family checks the answers themselves)
    if compile_isolated(exe, GOOD) != Some(true) {
        st.bump("directory_layouts_skipped_good_grammar_refused", 1);
        return;
    }
    let bads: Vec<&str> = bads.iter().copied().filter(|b| compile_isolated(exe, b) == Some(false)).collect();
    st.bump("directory_layout_refused_grammars", bads.len() as u64);
    let names = ["a", "m", "z"];
    let kinds = ["good", "bad", "other", "sub-good", "sub-bad", "absent"];
    use rayon::prelude::*;
    let mut layouts: Vec<(usize, [usize; 3], &str)> = Vec::new();
    let mut n = 0;
    for bad in &bads {
        for k0 in 0..kinds.len() {
            for k1 in 0..kinds.len() {
                for k2 in 0..kinds.len() {
                    layouts.push((n, [k0, k1, k2], bad));
                    n += 1;
                }
            }
        }
    }
    let results: Vec<(u64, Vec<Value>)> = layouts
        .par_iter()
        .map(|(n, ks, bad)| {
            let mut lines = Vec::new();
            let mut evals = 0;
            for mode in ["dir", "direxit"] {
                let root = dir.join(format!("layout-{n}-{mode}"));
                std::fs::create_dir_all(&root).unwrap();
                let mut any_bad = false;
                let mut goods: Vec<std::path::PathBuf> = Vec::new();
                let mut desc = Vec::new();
                for (name, k) in names.iter().zip(ks.iter()) {
                    desc.push(format!("{name}: {}", kinds[*k]));
                    match kinds[*k] {
                        "good" => {
                            std::fs::write(root.join(format!("{name}.ebnf")), GOOD).unwrap();
                            goods.push(root.join(format!("{name}.rs")));
                        }
                        "bad" => {
                            std::fs::write(root.join(format!("{name}.ebnf")), bad).unwrap();
                            any_bad = true;
                        }
                        "other" => std::fs::write(root.join(format!("{name}.txt")), "not a grammar").unwrap(),
                        "sub-good" | "sub-bad" => {
                            std::fs::create_dir_all(root.join(name)).unwrap();
                            let good = kinds[*k] == "sub-good";
                            std::fs::write(root.join(name).join("inner.ebnf"), if good { GOOD } else { bad }).unwrap();
                            if good {
                                goods.push(root.join(name).join("inner.rs"));
                            } else {
                                any_bad = true;
                            }
                        }
                        _ => {}
                    }
                }
                let o = Command::new(exe).args(["c15compile", mode, root.to_str().unwrap()]).stdout(Stdio::null()).stderr(Stdio::null()).status().unwrap();
                evals += 1;
                let expect = match (any_bad, mode) {
                    (false, _) => 0,
                    (true, "dir") => 7,
                    (true, _) => 1,
                };
                let listing: Vec<String> = std::fs::read_dir(&root).map(|rd| rd.filter_map(|e| e.ok()).map(|e| e.file_name().to_string_lossy().into_owned()).collect()).unwrap_or_default();
                if o.code() != Some(expect) {
                    lines.push(json!({"k":"viol","prop":"C15","kind": "compile-directory-status","grammar": bad, "input": desc.join(", "), "family":"routes", "why": "directory layout",
                        "site": format!("Compile::directory(..).{}", if mode == "dir" { "run" } else { "run_exit_on_error" }),
                        "expected": format!("child status {expect} (0 = Ok, 7 = Err from run(), 1 = exit code of run_exit_on_error): {}", if any_bad { "a grammar below the directory is refused" } else { "every grammar is accepted" }),
                        "actual": format!("{:?}; entries as listed by the file system: {:?}", o.code(), listing)}));
                } else if !any_bad {
                    for gp in &goods {
                        if !gp.exists() {
                            lines.push(json!({"k":"viol","prop":"C15","kind": "compile-directory-output-missing","grammar": GOOD, "input": desc.join(", "), "family":"routes", "why": "directory layout",
                                "site": "Compile::directory(..).run", "expected": format!("{} written", gp.display()), "actual": "Ok(()) without that file"}));
                        }
                    }
                }
                let _ = std::fs::remove_dir_all(&root);
            }
            (evals, lines)
        })
        .collect();
    for (e, lines) in results {
        st.evaluations += e;
        st.nontrivial += e;
        st.bump("directory_layout_runs", e);
        st.violations += lines.len() as u64;
        all_lines.extend(lines);
    }
}

/// Two-step histories: an accepted grammar is compiled to a destination, then a refused grammar is compiled to the
/// same destination - the same grammar file overwritten, or a second grammar file - with the refused grammar's file
/// dated before, at and after the destination's time stamp. The second run must fail whatever the clocks say.
fn stale_destination_histories(dir: &std::path::Path, exe: &std::path::Path, st: &mut Stats, all_lines: &mut Vec<Value>) {
    const GOOD: &str = "@export R = 'a' x:X; @string X = 'b';";
    let bads = ["@export R = 'a' >Missing;", "@export R = 'a' x:X", "@export @string R = 'a';", "@export Top = @:Item;\nItem = x:X @:X; @string X = 'b';"];
    if compile_isolated(exe, GOOD) != Some(true) {
        return;
    }
    let mut n = 0u64;
    for bad in bads.iter().filter(|b| compile_isolated(exe, b) == Some(false)) {
        for offset in [-3600i64, -10, 0, 10] {
            for shared in ["same grammar file overwritten", "second grammar file, same destination"] {
                for mode in ["run", "dir"] {
                    if mode == "dir" && shared != "same grammar file overwritten" {
                        continue;
                    }
                    n += 1;
                    let root = dir.join(format!("stale-{n}"));
                    std::fs::create_dir_all(&root).unwrap();
                    let g1 = root.join("g.ebnf");
                    let dest = root.join("g.rs");
                    std::fs::write(&g1, GOOD).unwrap();
                    let run = |g: &std::path::Path| -> Option<i32> {
                        let args: Vec<&str> = if mode == "run" { vec!["c15compile", "run", g.to_str().unwrap(), dest.to_str().unwrap()] } else { vec!["c15compile", "dir", root.to_str().unwrap()] };
                        Command::new(exe).args(&args).stdout(Stdio::null()).stderr(Stdio::null()).status().unwrap().code()
                    };
                    let first = run(&g1);
                    let g2 = if shared == "same grammar file overwritten" || mode == "dir" { g1.clone() } else { root.join("h.ebnf") };
                    std::fs::write(&g2, bad).unwrap();
                    let dest_time = std::fs::metadata(&dest).and_then(|m| m.modified()).ok();
                    if let Some(t) = dest_time {
                        let when = if offset < 0 { t - std::time::Duration::from_secs((-offset) as u64) } else { t + std::time::Duration::from_secs(offset as u64) };
                        let _ = std::fs::File::options().write(true).open(&g2).and_then(|f| f.set_modified(when));
                    }
                    let second = run(&g2);
                    st.evaluations += 1;
                    st.nontrivial += 1;
                    st.bump("stale_destination_histories", 1);
                    if first != Some(0) || second != Some(7) {
                        st.violations += 1;
                        all_lines.push(json!({"k":"viol","prop":"C15","kind": "refused-grammar-over-existing-destination","grammar": bad, "family":"routes", "why": "stale destination",
                            "input": format!("{shared}; refused grammar's file dated {offset} s relative to the destination; {}", if mode == "run" { "Compile::file" } else { "Compile::directory" }),
                            "site": "Compile::run", "expected": "first run Some(0) (accepted grammar), second run Some(7) (Err from run())", "actual": format!("first {:?}, second {:?}", first, second)}));
                    }
                    let _ = std::fs::remove_dir_all(&root);
                }
            }
        }
    }
}

/// library answer computed in a child process: Some(true) code, Some(false) error, None died
fn compile_isolated(exe: &std::path::Path, text: &str) -> Option<bool> {
    let mut child = Command::new(exe).args(["c15one"]).stdin(Stdio::piped()).stdout(Stdio::piped()).stderr(Stdio::null()).spawn().ok()?;
    child.stdin.take().unwrap().write_all(text.as_bytes()).ok()?;
    let out = child.wait_with_output().ok()?;
    match out.status.code() {
        Some(0) => Some(true),
        Some(1) => Some(false),
        _ => None,
    }
}

pub fn one() {
    std::panic::set_hook(Box::new(|_| {}));
    let mut text = String::new();
    std::io::stdin().read_to_string(&mut text).unwrap();
    match compile(&text, &None) {
        Out::Code => std::process::exit(0),
        Out::Err(_) => std::process::exit(1),
        Out::Panic(_) => std::process::exit(101),
    }
}

pub fn compile_child(args: &[String]) {
    if args[0] == "dir" || args[0] == "direxit" {
        let c = Compile::directory(&args[1]);
        if args[0] == "dir" {
            match c.run() {
                Ok(()) => std::process::exit(0),
                Err(_) => std::process::exit(7),
            }
        } else {
            c.run_exit_on_error();
            std::process::exit(0);
        }
    }
    if args[0] == "run3" {
        // the same grammar compiled three times to the same destination: the answer must not change
        let mut codes = Vec::new();
        for _ in 0..3 {
            codes.push(match Compile::file(&args[1]).destination(&args[2]).run() {
                Ok(()) => 0,
                Err(_) => 7,
            });
        }
        std::process::exit(if codes.iter().all(|c| *c == codes[0]) { codes[0] } else { 9 });
    }
    let c = Compile::file(&args[1]).destination(&args[2]);
    if args[0] == "run" {
        match c.run() {
            Ok(()) => std::process::exit(0),
            Err(_) => std::process::exit(7),
        }
    } else {
        c.run_exit_on_error();
        std::process::exit(0);
    }
}

pub fn run(tier: Tier, cli: &str) {
    let mut st = Stats::new();
    let mut lines: Vec<Value> = Vec::new();
    let nshards = 16;
    let mut fams = BTreeMapCount::default();
    for fam in ["catalogue", "paths", "duplicates", "memo-clone", "nesting", "derives", "mutations", "tokens"] {
        let before = st.evaluations;
        run_family(fam, tier, nshards, &mut st, &mut lines);
        fams.0.push((fam.to_string(), family_len(fam, tier), st.evaluations - before));
    }
    routes(tier, cli, &mut st, &mut lines);
    // report: group identical (kind, why) so that one defect does not flood the output
    let mut shown: std::collections::BTreeMap<String, u64> = Default::default();
    for l in &lines {
        let key = format!("{}|{}|{}", l["kind"], l["why"], l["site"]);
        let n = shown.entry(key).or_insert(0);
        *n += 1;
        if *n <= 3 {
            emit(l.clone());
        }
    }
    st.finish(json!({
        "families": fams.0.iter().map(|(f, n, e)| json!({"family": f, "texts": n, "evaluations": e})).collect::<Vec<_>>(),
        "token_alphabet": TOKENS, "exhaustive": true,
    }));
}

#[derive(Default)]
struct BTreeMapCount(Vec<(String, u64, u64)>);
