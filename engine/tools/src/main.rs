fn main(){}
