//! tools: the explorers that do not need compiled generated parsers.
//!   tools c11|c12|c15|c16|c17|c18 <tier> [args]
//! Output: JSON lines like a harness shard (viol / stats / machinery).

mod c11;
mod c12;
mod c15;
mod c16;
mod c17;
mod c18;
mod util;

fn main() {
    let args: Vec<String> = std::env::args().collect();
    if args.len() < 2 {
        eprintln!("usage: tools <prop> <tier> [args]");
        std::process::exit(2);
    }
    match args[1].as_str() {
        "c15w" => return c15::worker(&args[2..]),
        "c15one" => return c15::one(),
        "c15compile" => return c15::compile_child(&args[2..]),
        "c17fe" => return c17::front_end(),
        "c17tok" => return c17::tokcmp(&args[2], &args[3]),
        "c16gen" => return c16::gen(&args[2..]),
        _ => {}
    }
    let tier = refpeg::corpus::Tier::parse(&args[2]);
    match args[1].as_str() {
        "c11" => c11::run(tier),
        "c12" => c12::run(tier),
        "c15" => c15::run(tier, &args[3]),
        "c16" => c16::run(tier, &args[3]),
        "c17texts" => c17::texts(tier),
        "c16macro" => c16::macro_corpus(tier),
        "c18" => c18::run(tier),
        other => {
            eprintln!("unknown tool {other}");
            std::process::exit(2);
        }
    }
}
