//! C17 helpers: text corpus for the differential front-end run, the shipped front end as a filter,
//! and a token-wise comparison of two Rust files.

use peginator_codegen::Grammar as RealGrammar;
use refpeg::corpus::Tier;
use refpeg::print::{grammar_text, grammar_tokens};
use std::io::{BufRead, Write};
use std::str::FromStr;

/// grammar texts, valid and invalid: corpus grammars, layout variants, token strings, mutations
pub fn texts(tier: Tier) {
    let out = std::io::stdout();
    let mut w = std::io::BufWriter::new(out.lock());
    let mut n = 0u64;
    let mut put = |s: &str, w: &mut dyn Write| {
        writeln!(w, "{}", serde_json::to_string(s).unwrap()).unwrap();
        n += 1;
    };
    for p in ["C01", "C02", "C05", "C07", "C08", "C13", "C14"] {
        let cases = refpeg::corpus::build(p, Tier::Quick);
        let step = if tier == Tier::Quick { (cases.len() / 150).max(1) } else { 1 };
        for c in cases.into_iter().step_by(step) {
            put(&grammar_text(&c.grammar), &mut w);
            // a compact and a commented layout
            let toks: Vec<String> = grammar_tokens(&c.grammar).into_iter().map(|t| t.s).collect();
            put(&toks.join("\n# c\n"), &mut w);
        }
    }
    for (t, _, _) in crate::c15::mutations(if tier == Tier::Quick { Tier::Quick } else { Tier::Thorough }) {
        put(&t, &mut w);
    }
    for (t, _, _) in crate::c15::catalogue(Tier::Quick) {
        put(&t, &mut w);
    }
    let ntok = if tier == Tier::Quick { 3 } else { 4 };
    let k = crate::c15::TOKENS.len() as u64;
    let total: u64 = (0..=ntok as u32).map(|l| k.pow(l)).sum();
    for i in 0..total {
        put(&crate::c15::token_text_pub(i, ntok), &mut w);
    }
    // the repository's own grammar and a damaged copy of it per line
    if let Ok(g) = std::fs::read_to_string("/repo/grammar.ebnf") {
        put(&g, &mut w);
        let lines: Vec<&str> = g.lines().collect();
        for i in 0..lines.len() {
            let mut l = lines.clone();
            l.remove(i);
            put(&l.join("\n"), &mut w);
        }
    }
    let _ = n;
}

/// filter: JSON string per line in, JSON string of Debug(Result<Grammar, ParseError>) out
pub fn front_end() {
    std::panic::set_hook(Box::new(|_| {}));
    let stdin = std::io::stdin();
    let out = std::io::stdout();
    let mut w = std::io::BufWriter::new(out.lock());
    for line in stdin.lock().lines() {
        let line = line.unwrap();
        let text: String = serde_json::from_str(&line).unwrap();
        let r = std::panic::catch_unwind(|| format!("{:?}", RealGrammar::from_str(&text))).unwrap_or_else(|_| "PANIC".into());
        writeln!(w, "{}", serde_json::to_string(&r).unwrap()).unwrap();
    }
}

/// token strings of a Rust file without its leading comment lines
pub fn tokens_of(path: &str) -> Result<(Vec<String>, String), String> {
    let s = std::fs::read_to_string(path).map_err(|e| e.to_string())?;
    let mut header = Vec::new();
    let mut rest = s.as_str();
    while rest.starts_with("//") {
        let nl = rest.find('\n').ok_or("header only")?;
        header.push(rest[..nl].to_string());
        rest = &rest[nl + 1..];
    }
    let ts = proc_macro2::TokenStream::from_str(rest).map_err(|e| format!("{path} does not tokenise: {e}"))?;
    Ok((header, ts.to_string()))
}

pub fn tokcmp(a: &str, b: &str) {
    let (ha, ta) = match tokens_of(a) {
        Ok(x) => x,
        Err(e) => {
            println!("{}", serde_json::json!({"same": false, "why": e}));
            return;
        }
    };
    let (hb, tb) = match tokens_of(b) {
        Ok(x) => x,
        Err(e) => {
            println!("{}", serde_json::json!({"same": false, "why": e}));
            return;
        }
    };
    let crc = |h: &Vec<String>| h.iter().find(|l| l.contains("CRC-32/ISO-HDLC of the grammar file")).cloned();
    if ta != tb {
        let n = ta.chars().zip(tb.chars()).take_while(|(x, y)| x == y).count();
        println!(
            "{}",
            serde_json::json!({"same": false, "why": "token streams differ", "offset": n,
            "a": ta.chars().skip(n.saturating_sub(80)).take(240).collect::<String>(), "b": tb.chars().skip(n.saturating_sub(80)).take(240).collect::<String>()})
        );
    } else if crc(&ha) != crc(&hb) {
        println!("{}", serde_json::json!({"same": false, "why": "grammar checksum lines differ", "a": crc(&ha), "b": crc(&hb)}));
    } else {
        println!("{}", serde_json::json!({"same": true, "tokens": ta.split(' ').count()}));
    }
}
