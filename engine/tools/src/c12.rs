//! C12: grammar text is read into the structure it denotes. The real front end
//! (`Grammar::from_str`) is run on every layout / spelling variant of every corpus grammar and its
//! Debug rendering compared with the reference structure rendered in the same form.

use crate::util::*;
use peginator_codegen::{CodegenGrammar, CodegenSettings, Compile, Grammar as RealGrammar};
use rayon::prelude::*;
use refpeg::ast::*;
use refpeg::astdebug::grammar_debug;
use refpeg::corpus::Tier;
use refpeg::enumerate::*;
use refpeg::print::{grammar_text, grammar_tokens};
use serde_json::json;
use std::collections::BTreeSet;
use std::str::FromStr;

const FILLERS: [&str; 7] = [" ", "", "\n", "\t", "\r\n", "# c\n", " # c;'\"\n "];

fn is_ident_char(c: char) -> bool {
    c.is_ascii_alphanumeric() || c == '_'
}

/// may the two tokens be written without anything between them?
fn can_glue(a: &str, b: &str) -> bool {
    let (Some(x), Some(y)) = (a.chars().last(), b.chars().next()) else { return true };
    if is_ident_char(x) && is_ident_char(y) {
        return false;
    }
    // a name part of a @check/@extern path swallows everything up to - ) :  -> keep a gap after `(`-less risky spots
    if (x == '.' && y == '.') || (x == ':' && y == ':') || (x == '-' && y == '>') {
        return false;
    }
    true
}

fn layout(tokens: &[String], gaps: &[&str]) -> String {
    // gaps[0] before the first token, gaps[i] before token i, gaps[n] after the last
    let mut s = String::new();
    for (i, t) in tokens.iter().enumerate() {
        s.push_str(gaps[i]);
        s.push_str(t);
    }
    s.push_str(gaps[tokens.len()]);
    s
}

fn real_debug(text: &str) -> Result<String, String> {
    match RealGrammar::from_str(text) {
        Ok(g) => Ok(format!("{:?}", g)),
        Err(e) => Err(format!("parse error at byte {}: {:?}", e.position, e.specifics)),
    }
}

/// are these tokens inside a `@check(` / `@extern(` path? Name parts there are greedy over everything
/// but `- ) :`, so comments and line breaks are not "between tokens" in that region.
fn in_path_region(tokens: &[String]) -> Vec<bool> {
    let mut out = vec![false; tokens.len() + 1];
    let mut depth = false;
    for (i, t) in tokens.iter().enumerate() {
        if depth {
            out[i] = true;
        }
        if (t == "(") && i > 0 && (tokens[i - 1] == "@check" || tokens[i - 1] == "@extern") {
            depth = true;
        } else if t == ")" && depth {
            depth = false;
        }
    }
    out
}

fn variants(tokens: &[String], pairs: bool) -> Vec<(String, String)> {
    let n = tokens.len();
    let base: Vec<&str> = (0..=n).map(|i| if i == 0 || i == n { "" } else { " " }).collect();
    let region = in_path_region(tokens);
    let legal = |i: usize, f: &str| -> bool {
        if region[i] && (f.contains('#') || f.is_empty() && false) {
            return false;
        }
        if f.is_empty() && i > 0 && i < n {
            return can_glue(&tokens[i - 1], &tokens[i]);
        }
        true
    };
    let mut out = Vec::new();
    out.push((layout(tokens, &base), "canonical".to_string()));
    // all gaps at once, per filler
    for f in FILLERS {
        let gaps: Vec<&str> = (0..=n).map(|i| if legal(i, f) { f } else { base[i].max(" ") }).collect();
        out.push((layout(tokens, &gaps), format!("all gaps = {:?}", f)));
    }
    // single deviations
    for i in 0..=n {
        for f in FILLERS {
            if f == base[i] || !legal(i, f) {
                continue;
            }
            let mut gaps = base.clone();
            gaps[i] = f;
            out.push((layout(tokens, &gaps), format!("gap {i} = {:?}", f)));
        }
    }
    if pairs {
        for i in 0..=n {
            for j in (i + 1)..=n {
                for f in ["", "\n", "# c\n"] {
                    for g in ["", "\t", " # c;'\"\n "] {
                        if !legal(i, f) || !legal(j, g) || (f == base[i] && g == base[j]) {
                            continue;
                        }
                        let mut gaps = base.clone();
                        gaps[i] = f;
                        gaps[j] = g;
                        out.push((layout(tokens, &gaps), format!("gap {i} = {:?}, gap {j} = {:?}", f, g)));
                    }
                }
            }
        }
    }
    out
}

fn corpus_grammars(tier: Tier) -> Vec<Grammar> {
    let mut seen = BTreeSet::new();
    let mut out = Vec::new();
    let mut add = |g: Grammar, out: &mut Vec<Grammar>| {
        if seen.insert(grammar_text(&g)) {
            out.push(g);
        }
    };
    for p in ["C01", "C02", "C04", "C05", "C07", "C08", "C09", "C13", "C14"] {
        let cases = refpeg::corpus::build(p, Tier::Quick);
        let step = if tier == Tier::Quick { (cases.len() / 60).max(1) } else { (cases.len() / 600).max(1) };
        for c in cases.into_iter().step_by(step) {
            add(c.grammar, &mut out);
        }
    }
    // precedence family: every tree <= 4 nodes over two atoms, every operator
    let k = if tier == Tier::Quick { 3 } else { 4 };
    for e in trees(&[rref("A"), lit("b")], &ALL_OPS, k) {
        add(Grammar { rules: vec![Rule::normal("R", vec![], e)] }, &mut out);
    }
    // explicit (redundant) parentheses around every sub-expression of small trees
    for e in trees(&[rref("A"), lit("b")], &[Op::Group, Op::Opt, Op::Not, Op::Seq2, Op::Choice2], 3) {
        add(Grammar { rules: vec![Rule::normal("R", vec![], e)] }, &mut out);
    }
    // directive lists: every ordered selection of up to 3 directives
    let ds = vec![
        Directive::Export,
        Directive::NoSkipWs,
        Directive::Position,
        Directive::String,
        Directive::Memoize,
        Directive::Leftrec,
        Directive::Check(vec!["a".into(), "b".into()]),
        Directive::Check(vec!["crate".into(), "m".into(), "f_1".into()]),
    ];
    let mut lists: Vec<Vec<Directive>> = vec![vec![]];
    let mut level: Vec<Vec<Directive>> = vec![vec![]];
    for _ in 0..3 {
        let mut next = Vec::new();
        for l in &level {
            for d in &ds {
                if !l.contains(d) {
                    let mut n = l.clone();
                    n.push(d.clone());
                    next.push(n);
                }
            }
        }
        lists.extend(next.iter().cloned());
        level = next;
    }
    for l in lists {
        add(Grammar { rules: vec![Rule::normal("R", l, seq(vec![lit("b"), field("f", "X")]))] }, &mut out);
    }
    // @char rules with checks on either side; @extern forms
    for before in 0..=2 {
        let checks = vec![Directive::Check(vec!["a".into(), "b".into()]), Directive::Check(vec!["c".into()])];
        add(
            Grammar {
                rules: vec![Rule {
                    name: "C".into(),
                    directives: checks.clone(),
                    def: RuleDef::Char {
                        parts: vec![CharPart::Char(LitChar::canon('x')), CharPart::Range(LitChar::canon('a'), LitChar::canon('f')), CharPart::Ident("D".into())],
                        checks_before: before,
                    },
                }],
            },
            &mut out,
        );
    }
    add(Grammar { rules: vec![Rule::ext("E", "crate::m::f", None), Rule::ext("F", "a::b", Some("crate::T")), Rule::ext("G", "f", Some("T"))] }, &mut out);
    out
}

/// escapes: every spelling of every pool character in four positions
fn escape_grammars(tier: Tier) -> Vec<(Grammar, Grammar)> {
    let pool: Vec<char> = if tier == Tier::Quick {
        vec!['a', 'Q', '\'', '"', '\\', '\n', '\t', '\u{7f}', '\u{80}', '\u{ff}', '\u{100}', '\u{7ff}', '\u{800}', '\u{d7ff}', '\u{e000}', '\u{ffff}', '\u{10000}', '\u{10ffff}']
    } else {
        let mut p: Vec<char> = (0x20u8..0x7f).map(|b| b as char).collect();
        p.extend(['\n', '\r', '\t', '\u{7f}', '\u{80}', '\u{ff}', '\u{100}', '\u{7ff}', '\u{800}', '\u{d7ff}', '\u{e000}', '\u{ffff}', '\u{10000}', '\u{10ffff}', '\u{0}', '\u{1f}']);
        p
    };
    let mut out = Vec::new();
    for c in pool {
        for sp in refpeg::corpus::e1::spellings_for(c) {
            let l = LitChar { c, sp: sp.clone() };
            let canon = LitChar::canon(c);
            for dq in [false, true] {
                let mk = |lc: &LitChar, pos: usize| -> Expr {
                    match pos {
                        0 => Expr::Lit { chars: vec![lc.clone()], insensitive: false, dq },
                        _ => Expr::Lit { chars: vec![LitChar::canon('q'), lc.clone(), LitChar::canon('z')], insensitive: false, dq },
                    }
                };
                for pos in 0..2 {
                    out.push((Grammar { rules: vec![Rule::normal("R", vec![], mk(&l, pos))] }, Grammar { rules: vec![Rule::normal("R", vec![], mk(&canon, pos))] }));
                }
                // the same spellings inside case-insensitive literals (ASCII only: others are rejected)
                if c.is_ascii() {
                    let mki = |lc: &LitChar, pos: usize| -> Expr {
                        match pos {
                            0 => Expr::Lit { chars: vec![lc.clone()], insensitive: true, dq },
                            1 => Expr::Lit { chars: vec![lc.clone(), lc.clone()], insensitive: true, dq },
                            _ => Expr::Lit { chars: vec![LitChar::canon('-'), lc.clone(), LitChar::canon('2')], insensitive: true, dq },
                        }
                    };
                    for pos in 0..3 {
                        out.push((Grammar { rules: vec![Rule::normal("R", vec![], mki(&l, pos))] }, Grammar { rules: vec![Rule::normal("R", vec![], mki(&canon, pos))] }));
                    }
                }
            }
            let lo = LitChar::canon('\u{0}');
            let hi = LitChar::canon('\u{10ffff}');
            out.push((
                Grammar { rules: vec![Rule::normal("R", vec![], Expr::Range { from: l.clone(), to: hi.clone() })] },
                Grammar { rules: vec![Rule::normal("R", vec![], Expr::Range { from: canon.clone(), to: hi.clone() })] },
            ));
            out.push((
                Grammar { rules: vec![Rule::normal("R", vec![], Expr::Range { from: lo.clone(), to: l.clone() })] },
                Grammar { rules: vec![Rule::normal("R", vec![], Expr::Range { from: lo.clone(), to: canon.clone() })] },
            ));
            out.push((
                Grammar { rules: vec![Rule::chr("R", vec![CharPart::Char(l.clone()), CharPart::Range(l.clone(), hi.clone())])] },
                Grammar { rules: vec![Rule::chr("R", vec![CharPart::Char(canon.clone()), CharPart::Range(canon.clone(), hi.clone())])] },
            ));
        }
    }
    out
}

fn code_of(text: &str) -> Result<String, String> {
    let g = RealGrammar::from_str(text).map_err(|e| format!("parse error at {}", e.position))?;
    g.generate_code(&CodegenSettings::default()).map(|t| t.to_string()).map_err(|e| format!("{e:#}"))
}

pub fn run(tier: Tier) {
    std::panic::set_hook(Box::new(|_| {}));
    let grammars = corpus_grammars(tier);
    let pairs = tier == Tier::Thorough;
    let results: Vec<Stats> = grammars
        .par_iter()
        .map(|g| {
            let mut st = Stats::new();
            st.max_viol = 3;
            let expected = grammar_debug(g);
            let tokens: Vec<String> = grammar_tokens(g).into_iter().map(|t| t.s).collect();
            // pair deviations only for small grammars (quadratic)
            for (text, what) in variants(&tokens, pairs && tokens.len() <= 24) {
                st.evaluations += 1;
                if what != "canonical" {
                    st.nontrivial += 1;
                }
                let got = std::panic::catch_unwind(|| real_debug(&text)).unwrap_or_else(|p| Err(format!("panic: {}", panic_message(p))));
                st.sample(|| json!({"text": text, "layout": what, "structure": got.clone().unwrap_or_else(|e| e).chars().take(300).collect::<String>()}));
                match got {
                    Ok(d) if d == expected => st.outcome(&d),
                    Ok(d) => {
                        let n = d.chars().zip(expected.chars()).take_while(|(a, b)| a == b).count();
                        st.violation("C12", "wrong-structure", json!({"grammar": text, "input": what, "expected": expected.chars().skip(n.saturating_sub(60)).take(200).collect::<String>(),
                            "actual": d.chars().skip(n.saturating_sub(60)).take(200).collect::<String>(), "canonical": grammar_text(g)}));
                    }
                    Err(e) => st.violation("C12", "valid-text-not-read", json!({"grammar": text, "input": what, "expected": "the grammar is read", "actual": e, "canonical": grammar_text(g)})),
                }
            }
            st
        })
        .collect();
    let mut st = Stats::new();
    for r in results {
        st.merge(r);
    }
    let n_layout = st.evaluations;
    // the same texts read from a file by the build-script helper: layouts that differ at the start and at the end
    // of the file (comment / line break / nothing before the first and after the last token) and everywhere at once
    let dir = std::env::temp_dir().join(format!("verif-c12-{}", std::process::id()));
    std::fs::create_dir_all(&dir).unwrap();
    let step = if tier == Tier::Quick { 4 } else { 1 };
    let fres: Vec<Stats> = grammars
        .par_iter()
        .enumerate()
        .filter(|(i, _)| i % step == 0)
        .map(|(gi, g)| {
            let mut st = Stats::new();
            st.max_viol = 2;
            let tokens: Vec<String> = grammar_tokens(g).into_iter().map(|t| t.s).collect();
            let n = tokens.len();
            let expected = code_of(&grammar_text(g)).map(|c| proc_macro2::TokenStream::from_str(&c).unwrap().to_string());
            let last = format!("gap {n} =");
            for (vi, (text, what)) in variants(&tokens, false).into_iter().enumerate() {
                if !(what == "canonical" || what.starts_with("all gaps") || what.starts_with("gap 0 =") || what.starts_with(&last)) {
                    continue;
                }
                let src = dir.join(format!("g{gi}_{vi}.ebnf"));
                let dst = dir.join(format!("g{gi}_{vi}.rs"));
                std::fs::write(&src, &text).unwrap();
                let r = std::panic::catch_unwind(|| Compile::file(&src).destination(&dst).run());
                st.evaluations += 1;
                st.nontrivial += 1;
                st.bump("file_route_compilations", 1);
                let got: Result<String, String> = match r {
                    Err(p) => Err(format!("panic: {}", panic_message(p))),
                    Ok(Err(e)) => Err(format!("{e:#}")),
                    Ok(Ok(())) => {
                        let body = std::fs::read_to_string(&dst).unwrap_or_default();
                        let mut rest = body.as_str();
                        while rest.starts_with("//") {
                            rest = rest.find('\n').map(|i| &rest[i + 1..]).unwrap_or("");
                        }
                        proc_macro2::TokenStream::from_str(rest).map(|t| t.to_string()).map_err(|e| format!("destination does not tokenise: {e}"))
                    }
                };
                let same = match (&expected, &got) {
                    (Ok(a), Ok(b)) => a == b,
                    (Err(_), Err(e)) => !e.starts_with("panic"),
                    _ => false,
                };
                if !same {
                    st.violation("C12", "file-read-differently", json!({"grammar": text, "input": format!("Compile::file, {what}"), "canonical": grammar_text(g),
                        "expected": match &expected { Ok(_) => "the code of the canonical text".to_string(), Err(e) => format!("an error ({e})") },
                        "actual": match &got { Ok(_) => "different code".to_string(), Err(e) => e.clone() }}));
                }
                let _ = std::fs::remove_file(&src);
                let _ = std::fs::remove_file(&dst);
            }
            st
        })
        .collect();
    for r in fres {
        st.merge(r);
    }
    let _ = std::fs::remove_dir_all(&dir);
    // escapes: structure + generated code identical to the canonically spelled grammar
    let esc = escape_grammars(tier);
    let eres: Vec<Stats> = esc
        .par_iter()
        .map(|(g, canon)| {
            let mut st = Stats::new();
            st.max_viol = 2;
            let text = grammar_text(g);
            st.evaluations += 1;
            st.nontrivial += 1;
            let expected = grammar_debug(g);
            match real_debug(&text) {
                Ok(d) if d == expected => {}
                Ok(d) => st.violation("C12", "wrong-structure", json!({"grammar": text, "input": "escape spelling", "expected": expected, "actual": d})),
                Err(e) => st.violation("C12", "valid-text-not-read", json!({"grammar": text, "input": "escape spelling", "expected": "the grammar is read", "actual": e})),
            }
            let a = code_of(&text);
            let b = code_of(&grammar_text(canon));
            st.outcome(&format!("{:?}", a));
            st.sample(|| json!({"text": text, "same_code_as": grammar_text(canon)}));
            if a != b || a.is_err() {
                st.violation("C12", "escape-denotes-other-character", json!({"grammar": text, "input": "escape spelling",
                    "expected": format!("same generated code as {:?}", grammar_text(canon)), "actual": format!("{:?}", a).chars().take(300).collect::<String>()}));
            }
            st
        })
        .collect();
    for r in eres {
        st.merge(r);
    }
    st.finish(json!({"grammars": grammars.len(), "layout_variants": n_layout, "escape_spellings": esc.len(), "fillers": FILLERS,
        "pair_deviations": pairs, "exhaustive": true}));
}
