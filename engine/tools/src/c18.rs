//! C18: explicit-state breadth-first search over build-script histories. Every `run` transition is
//! executed by the REAL `peginator_codegen::Compile` on a real directory materialised from the state.
//!
//! state (file modes)     = (grammar content id, prefix id, destination bytes or absent)
//! state (directory mode) = (content id of a.ebnf, content id of sub/b.ebnf, prefix id, both destinations)
//! transitions            = edit(g) | set_prefix(p) | delete_dest | run
//! The search runs to the fixpoint of the reachable set (finite: destination contents are outputs of run).

use crate::util::*;
use peginator_codegen::{generate_source_header, CodegenGrammar, CodegenSettings, Compile, Grammar};
use refpeg::corpus::Tier;
use serde_json::{json, Value};
use std::collections::{BTreeMap, VecDeque};
use std::path::{Path, PathBuf};
use std::str::FromStr;

const SENTINEL: i64 = 1_000_000_000;

#[derive(Clone, Copy, Debug, PartialEq, Eq, PartialOrd, Ord)]
pub enum Mode {
    FileExplicit,
    FileDefault,
    Directory,
    FileExplicitFormat,
    DirectoryFormat,
    /// directory mode with `.destination(..)` set: documented as "only used if running on a single file"
    DirectoryExplicit,
}

impl Mode {
    fn is_dir(self) -> bool {
        matches!(self, Mode::Directory | Mode::DirectoryFormat | Mode::DirectoryExplicit)
    }
    fn is_format(self) -> bool {
        matches!(self, Mode::FileExplicitFormat | Mode::DirectoryFormat)
    }
}

fn grammars() -> Vec<(&'static str, Option<&'static str>, bool)> {
    // (name, text, valid)
    vec![
        ("absent", None, false),
        ("G1", Some("@export Root = 'a' x:X ;\nX = 'b' | 'c' ;\n"), true),
        ("G2", Some("@export Root = { y:Y } $ ;\n@string Y = 'd' ;\n"), true),
        ("Gparse", Some("@export Root = 'a' x:X \nX = ;;\n"), false),
        ("Gcodegen", Some("@export Root = !( x:X ) ;\nX = 'b' ;\n"), false),
        // G5 / G6 differ from each other only in whitespace, at a place where whitespace matters
        ("G5", Some("@export Root = 'a b' x:X ;\nX = 'b' | 'c' ;\n"), true),
        ("G6", Some("@export Root = 'ab' x:X ;\nX = 'b' | 'c' ;\n"), true),
        // multi-byte characters end up in the generated code (byte length != character count)
        ("G7", Some("@export Root = 'jó' x:X ;\nX = 'ü' | 'c' | '香' ;\n"), true),
        // not UTF-8 on disk: every U+E000 below is written as the single byte 0xFF (inside a comment and a literal,
        // where any character is allowed): the file cannot be read as text, so the run must fail
        ("Gbadutf8", Some("@export Root = 'a' x:X ; # caf\u{e000}\nX = 'b\u{e000}' | 'c' ;\n"), false),
    ]
}

fn prefixes() -> Vec<&'static str> {
    vec!["", "use std::fmt;", "use std::fmt;\nuse std::io;", "use std::collections::BTreeMap;", "// előtag: 香\nuse std::cmp;"]
}

#[derive(Clone, Debug, PartialEq, Eq, PartialOrd, Ord, Hash)]
pub struct State {
    pub g: Vec<usize>,
    pub prefix: usize,
    /// destination contents (index into the content table) or None
    pub dest: Vec<Option<usize>>,
}

#[derive(Clone, Debug, PartialEq, Eq)]
pub enum Op {
    Edit(usize, usize),
    SetPrefix(usize),
    DeleteDest(usize),
    Run,
}

impl Op {
    fn describe(&self) -> String {
        let gs = grammars();
        match self {
            Op::Edit(f, g) => format!("edit(file{f}, {})", gs[*g].0),
            Op::SetPrefix(p) => format!("set_prefix({:?})", prefixes()[*p]),
            Op::DeleteDest(f) => format!("delete_dest(file{f})"),
            Op::Run => "run".into(),
        }
    }
}

struct Contents {
    table: Vec<Vec<u8>>,
    index: BTreeMap<Vec<u8>, usize>,
}

impl Contents {
    fn id(&mut self, b: &[u8]) -> usize {
        if let Some(i) = self.index.get(b) {
            return *i;
        }
        self.table.push(b.to_vec());
        self.index.insert(b.to_vec(), self.table.len() - 1);
        self.table.len() - 1
    }
}

/// header lines stripped, tokens of the rest
/// the text after the leading `//` lines (header lines; a prefix that starts with a line comment goes with them)
fn strip_header(s: &str) -> &str {
    let mut rest = s;
    while rest.starts_with("//") {
        match rest.find('\n') {
            Some(nl) => rest = &rest[nl + 1..],
            None => return "",
        }
    }
    rest
}

fn tokens_after_header(s: &str) -> Option<String> {
    let mut rest = s;
    while rest.starts_with("//") {
        let nl = rest.find('\n')?;
        rest = &rest[nl + 1..];
    }
    let ts = proc_macro2::TokenStream::from_str(rest).ok()?;
    Some(ts.to_string())
}

/// what the destination must be for (grammar, prefix): (header the library computes, token string of prefix + code)
fn expected(gtext: &str, prefix: &str) -> Option<(String, String)> {
    let g = Grammar::from_str(gtext).ok()?;
    let code = g.generate_code(&CodegenSettings::default()).ok()?;
    let header = generate_source_header(gtext);
    let body = format!("{}\n{}", prefix, code);
    let toks = proc_macro2::TokenStream::from_str(&body).ok()?.to_string();
    Some((header, toks))
}

thread_local! {
    static FMT_CACHE: std::cell::RefCell<BTreeMap<(String, String), String>> = std::cell::RefCell::new(BTreeMap::new());
    static FORMAT_MODE: std::cell::Cell<bool> = std::cell::Cell::new(false);
    static FMT_TEXT: std::cell::RefCell<BTreeMap<(String, String), String>> = std::cell::RefCell::new(BTreeMap::new());
}

/// with formatting on, the expected body is what the same rustfmt makes of prefix + code
fn expected_formatted(gtext: &str, prefix: &str) -> Option<(String, String)> {
    let (header, _) = expected(gtext, prefix)?;
    let key = (gtext.to_string(), prefix.to_string());
    if let Some(t) = FMT_CACHE.with(|c| c.borrow().get(&key).cloned()) {
        return Some((header, t));
    }
    let g = Grammar::from_str(gtext).ok()?;
    let code = g.generate_code(&CodegenSettings::default()).ok()?;
    let text = format!("{}\n{}\n{}", header, prefix, code);
    let dir = std::env::temp_dir().join(format!("verif-c18-fmt-{}", std::process::id()));
    std::fs::create_dir_all(&dir).ok()?;
    let bytes = rustfmt_of(&text, &dir)?;
    let _ = std::fs::remove_dir_all(&dir);
    let toks = tokens_after_header(std::str::from_utf8(&bytes).ok()?)?;
    FMT_TEXT.with(|c| c.borrow_mut().insert(key.clone(), strip_header(std::str::from_utf8(&bytes).ok()?).to_string()));
    FMT_CACHE.with(|c| c.borrow_mut().insert(key, toks.clone()));
    Some((header, toks))
}

fn dest_is_compilation_of(bytes: &[u8], gtext: &str, prefix: &str) -> Result<(), String> {
    let s = std::str::from_utf8(bytes).map_err(|_| "destination is not UTF-8".to_string())?;
    let (header, toks) = if FORMAT_MODE.with(|f| f.get()) { expected_formatted(gtext, prefix) } else { expected(gtext, prefix) }
        .ok_or("grammar does not compile through the library route")?;
    if !s.starts_with(&header) {
        return Err(format!("destination does not start with the header of the current grammar; starts with {:?}", &s[..s.len().min(160)]));
    }
    // comments are not tokens: every line of the prefix must be there as written
    for line in prefix.lines().map(|l| l.trim()).filter(|l| !l.is_empty()) {
        if !s.lines().any(|l| l.trim() == line) {
            return Err(format!("destination does not contain the prefix line {line:?}"));
        }
    }
    if FORMAT_MODE.with(|f| f.get()) {
        // with formatting on, the text after the header is exactly what rustfmt makes of a fresh compilation
        let want = FMT_TEXT.with(|c| c.borrow().get(&(gtext.to_string(), prefix.to_string())).cloned());
        if let Some(want) = want {
            if strip_header(s) != want {
                return Err("destination is not the rustfmt output of a fresh compilation (same tokens or not, the text differs)".into());
            }
        }
    }
    let got = tokens_after_header(s).ok_or("destination does not tokenise")?;
    if got != toks {
        let n = got.chars().zip(toks.chars()).take_while(|(a, b)| a == b).count();
        return Err(format!(
            "destination body is not prefix + code of the current grammar/prefix; first difference at token-string offset {n}: has {:?}, expected {:?}",
            got.chars().skip(n.saturating_sub(10)).take(70).collect::<String>(),
            toks.chars().skip(n.saturating_sub(10)).take(70).collect::<String>()
        ));
    }
    Ok(())
}

struct World {
    mode: Mode,
    dir: PathBuf,
    contents: Contents,
    gs: Vec<(&'static str, Option<&'static str>, bool)>,
    ps: Vec<&'static str>,
}

impl World {
    fn nfiles(&self) -> usize {
        if self.mode.is_dir() {
            2
        } else {
            1
        }
    }
    fn src(&self, f: usize) -> PathBuf {
        match (self.mode.is_dir(), f) {
            (true, 0) => self.dir.join("src/a.ebnf"),
            (true, _) => self.dir.join("src/sub/b.ebnf"),
            _ => self.dir.join("src/g.ebnf"),
        }
    }
    fn dst(&self, f: usize) -> PathBuf {
        match (self.mode, f) {
            (Mode::Directory | Mode::DirectoryFormat | Mode::DirectoryExplicit, 0) => self.dir.join("src/a.rs"),
            (Mode::Directory | Mode::DirectoryFormat | Mode::DirectoryExplicit, _) => self.dir.join("src/sub/b.rs"),
            (Mode::FileDefault, _) => self.dir.join("src/g.rs"),
            _ => self.dir.join("out/generated.rs"),
        }
    }
    fn materialise(&self, s: &State) {
        let _ = std::fs::remove_dir_all(&self.dir);
        std::fs::create_dir_all(self.dir.join("src/sub")).unwrap();
        std::fs::create_dir_all(self.dir.join("out")).unwrap();
        for f in 0..self.nfiles() {
            if let Some(t) = self.gs[s.g[f]].1 {
                let mut bytes: Vec<u8> = Vec::new();
                for c in t.chars() {
                    if c == '\u{e000}' {
                        bytes.push(0xFF);
                    } else {
                        let mut b = [0u8; 4];
                        bytes.extend_from_slice(c.encode_utf8(&mut b).as_bytes());
                    }
                }
                std::fs::write(self.src(f), bytes).unwrap();
                // as in a real tree the grammar file is older than anything generated from it
                filetime::set_file_mtime(self.src(f), filetime::FileTime::from_unix_time(SENTINEL - 1000, 0)).unwrap();
            }
            if let Some(c) = s.dest[f] {
                std::fs::write(self.dst(f), &self.contents.table[c]).unwrap();
                filetime::set_file_mtime(self.dst(f), filetime::FileTime::from_unix_time(SENTINEL, 0)).unwrap();
            }
        }
    }
    fn compile(&self, s: &State) -> Result<(), String> {
        let c = match self.mode {
            Mode::Directory => Compile::directory(self.dir.join("src")),
            Mode::FileDefault => Compile::file(self.src(0)),
            Mode::FileExplicit => Compile::file(self.src(0)).destination(self.dst(0)),
            Mode::FileExplicitFormat => Compile::file(self.src(0)).destination(self.dst(0)).format(),
            Mode::DirectoryFormat => Compile::directory(self.dir.join("src")).format(),
            Mode::DirectoryExplicit => Compile::directory(self.dir.join("src")).destination(self.dir.join("out/generated.rs")),
        };
        let r = std::panic::catch_unwind(std::panic::AssertUnwindSafe(|| c.prefix(self.ps[s.prefix].to_string()).run()));
        match r {
            Ok(Ok(())) => Ok(()),
            Ok(Err(e)) => Err(format!("{e:#}").chars().take(200).collect()),
            Err(p) => Err(format!("PANIC {}", panic_message(p))),
        }
    }
    fn read_dest(&mut self, f: usize) -> (Option<usize>, Option<i64>) {
        match std::fs::read(self.dst(f)) {
            Ok(b) => {
                let mt = std::fs::metadata(self.dst(f)).map(|m| filetime::FileTime::from_last_modification_time(&m).unix_seconds()).ok();
                (Some(self.contents.id(&b)), mt)
            }
            Err(_) => (None, None),
        }
    }
}

fn rustfmt_of(s: &str, dir: &Path) -> Option<Vec<u8>> {
    let p = dir.join("fmt_expect.rs");
    std::fs::write(&p, s).ok()?;
    std::process::Command::new("rustfmt").arg(&p).status().ok()?;
    std::fs::read(&p).ok()
}

pub fn explore(mode: Mode, tier: Tier, st: &mut Stats, replay: Option<&[Op]>) -> (usize, usize, Vec<Value>) {
    FORMAT_MODE.with(|f| f.set(mode.is_format()));
    let dir = std::env::temp_dir().join(format!("verif-c18-{}-{:?}", std::process::id(), mode));
    let gs = grammars();
    let ps = prefixes();
    let mut w = World { mode, dir: dir.clone(), contents: Contents { table: Vec::new(), index: BTreeMap::new() }, gs: gs.clone(), ps: ps.clone() };
    let nf = w.nfiles();
    // menus: directory mode and format mode use smaller menus in the quick tier
    let gmenu: Vec<usize> = match (mode, tier) {
        (Mode::Directory, Tier::Quick) => vec![1, 3, 5, 7],
        (Mode::Directory, Tier::Thorough) => vec![0, 1, 2, 3, 4, 5, 6, 7, 8],
        (Mode::FileExplicitFormat, Tier::Quick) => vec![1, 3, 5, 6, 7],
        (Mode::DirectoryFormat, Tier::Quick) => vec![1, 3, 7],
        (Mode::DirectoryExplicit, Tier::Quick) => vec![1, 3, 5],
        (Mode::DirectoryExplicit, Tier::Thorough) => vec![0, 1, 3, 4, 5, 7],
        (Mode::DirectoryFormat, Tier::Thorough) => vec![0, 1, 3, 4, 5, 7, 8],
        _ => vec![0, 1, 2, 3, 4, 5, 6, 7, 8],
    };
    let pmenu: Vec<usize> = match (mode, tier) {
        (Mode::Directory, Tier::Quick) => vec![0, 1, 4],
        (Mode::FileExplicitFormat, _) => vec![0, 1, 4],
        (Mode::DirectoryFormat, Tier::Quick) => vec![0, 4],
        (Mode::DirectoryExplicit, _) => vec![0, 1],
        (Mode::DirectoryFormat, Tier::Thorough) => vec![0, 1, 4],
        _ => vec![0, 1, 2, 3, 4],
    };
    let init = State { g: vec![1; nf], prefix: 0, dest: vec![None; nf] };
    let mut seen: BTreeMap<State, (Option<State>, Option<Op>)> = BTreeMap::new();
    seen.insert(init.clone(), (None, None));
    let mut queue: VecDeque<State> = VecDeque::new();
    queue.push_back(init.clone());
    let mut transitions = 0usize;
    let mut samples: Vec<Value> = Vec::new();
    let history = |seen: &BTreeMap<State, (Option<State>, Option<Op>)>, s: &State| -> Vec<String> {
        let mut ops = Vec::new();
        let mut cur = s.clone();
        while let Some((Some(prev), Some(op))) = seen.get(&cur).cloned() {
            ops.push(op.describe());
            cur = prev;
        }
        ops.reverse();
        ops
    };
    // replay mode: walk the given op list from the initial state, checking every run
    let mut replay_state = init.clone();
    let mut replay_i = 0usize;
    loop {
        let s = if let Some(ops) = replay {
            if replay_i > ops.len() {
                break;
            }
            replay_state.clone()
        } else {
            match queue.pop_front() {
                Some(s) => s,
                None => break,
            }
        };
        let mut ops: Vec<Op> = Vec::new();
        if let Some(r) = replay {
            if replay_i == r.len() {
                break;
            }
            ops.push(r[replay_i].clone());
            replay_i += 1;
        } else {
            for f in 0..nf {
                for g in &gmenu {
                    if *g != s.g[f] {
                        ops.push(Op::Edit(f, *g));
                    }
                }
                if s.dest[f].is_some() {
                    ops.push(Op::DeleteDest(f));
                }
            }
            for p in &pmenu {
                if *p != s.prefix {
                    ops.push(Op::SetPrefix(*p));
                }
            }
            ops.push(Op::Run);
        }
        for op in ops {
            transitions += 1;
            let mut n = s.clone();
            match &op {
                Op::Edit(f, g) => n.g[*f] = *g,
                Op::SetPrefix(p) => n.prefix = *p,
                Op::DeleteDest(f) => n.dest[*f] = None,
                Op::Run => {
                    w.materialise(&s);
                    let res = w.compile(&s);
                    st.evaluations += 1;
                    let mut after: Vec<(Option<usize>, Option<i64>)> = Vec::new();
                    for f in 0..nf {
                        after.push(w.read_dest(f));
                    }
                    for f in 0..nf {
                        n.dest[f] = after[f].0;
                    }
                    // directory mode: a grammar file that does not exist is simply not part of the run (nothing to
                    // compile, its destination must stay as it is); in file mode a missing source is an error
                    let present = |f: usize| !(mode.is_dir() && gs[s.g[f]].1.is_none());
                    let all_valid = (0..nf).all(|f| !present(f) || gs[s.g[f]].2);
                    let hist = {
                        let mut h = history(&seen, &s);
                        h.push("run".into());
                        h
                    };
                    st.outcome(&format!("{:?}|{:?}|{:?}", s, res.is_ok(), n.dest));
                    if samples.len() < 4 && (st.evaluations == 3 || st.evaluations == 40 || st.evaluations == 300 || st.evaluations == 2000) {
                        samples.push(json!({"mode": format!("{:?}", mode), "history": hist, "result": format!("{:?}", res.as_ref().map_err(|e| e.chars().take(80).collect::<String>()))}));
                    }
                    let mut fails: Vec<(String, String, String)> = Vec::new();
                    let mut fail = |kind: &str, expected: String, actual: String| fails.push((kind.to_string(), expected, actual));
                    if mode == Mode::DirectoryExplicit && w.dir.join("out/generated.rs").exists() {
                        fail("explicit-destination-written-in-directory-mode", "the destination setting is only used when running on a single file".into(), "out/generated.rs was created".into());
                    }
                    if all_valid {
                        st.nontrivial += 1;
                        if let Err(e) = &res {
                            fail("valid-grammar-run-fails", "Ok(())".into(), e.clone());
                        } else {
                            for f in 0..nf {
                                if !present(f) {
                                    if after[f].0 != s.dest[f] || (s.dest[f].is_some() && after[f].1 != Some(SENTINEL)) {
                                        fail("destination-without-grammar-touched", "a destination whose grammar file does not exist is left alone".into(), "changed".into());
                                    }
                                    continue;
                                }
                                let gtext = gs[s.g[f]].1.unwrap();
                                let was_current = s.dest[f].map(|c| {
                                    if mode == Mode::FileExplicitFormat {
                                        // with formatting the stored destination is the rustfmt of the compilation
                                        dest_is_compilation_of(&w.contents.table[c], gtext, ps[s.prefix]).is_ok()
                                    } else {
                                        dest_is_compilation_of(&w.contents.table[c], gtext, ps[s.prefix]).is_ok()
                                    }
                                });
                                match after[f].0 {
                                    None => fail("destination-missing-after-ok", "destination written".into(), "no destination file".into()),
                                    Some(c) => {
                                        if let Err(e) = dest_is_compilation_of(&w.contents.table[c], gtext, ps[s.prefix]) {
                                            fail("stale-destination-after-ok", format!("compilation of {} with prefix {:?}", gs[s.g[f]].0, ps[s.prefix]), e);
                                        } else if was_current == Some(true) {
                                            st.bump("up_to_date_runs", 1);
                                            if after[f].1 != Some(SENTINEL) || after[f].0 != s.dest[f] {
                                                fail("up-to-date-destination-touched", "destination left untouched (same bytes, same mtime)".into(),
                                                    format!("mtime {:?}, bytes changed: {}", after[f].1, after[f].0 != s.dest[f]));
                                            }
                                        }
                                    }
                                }
                            }
                        }
                    } else {
                        match &res {
                            Ok(()) => fail("invalid-grammar-run-succeeds", "Err".into(), "Ok(())".into()),
                            Err(e) if e.starts_with("PANIC") => fail("run-panics", "Err".into(), e.clone()),
                            Err(_) => {
                                for f in 0..nf {
                                    let valid = gs[s.g[f]].2 && present(f);
                                    if !present(f) {
                                        if after[f].0 != s.dest[f] {
                                            fail("destination-without-grammar-touched", "a destination whose grammar file does not exist is left alone".into(), "changed".into());
                                        }
                                        continue;
                                    }
                                    let unchanged = after[f].0 == s.dest[f] && (s.dest[f].is_none() || after[f].1 == Some(SENTINEL));
                                    if !valid {
                                        if !unchanged {
                                            fail("failed-run-changed-destination", "destination of the failing grammar exactly as before".into(),
                                                format!("bytes changed: {}, mtime {:?}", after[f].0 != s.dest[f], after[f].1));
                                        }
                                    } else if !unchanged {
                                        // another file of a directory run: unchanged or the correct compilation, never partial
                                        let ok = after[f].0.map(|c| dest_is_compilation_of(&w.contents.table[c], gs[s.g[f]].1.unwrap(), ps[s.prefix]).is_ok()).unwrap_or(false);
                                        if !ok {
                                            fail("partial-destination-after-failed-run", "unchanged or the correct compilation".into(), "something else".into());
                                        }
                                    }
                                }
                            }
                        }
                    }
                    let hist_s = hist.clone();
                    for (kind, expected, actual) in fails {
                        st.violation("C18", &kind, json!({"mode": format!("{:?}", mode), "history": hist_s, "input": hist_s.join("; "),
                            "site": format!("{:?}/{}", mode, kind), "expected": expected, "actual": actual,
                            "grammar": (0..nf).map(|f| gs[s.g[f]].0).collect::<Vec<_>>().join("+"), "prefix": ps[s.prefix]}));
                    }
                }
            }
            if replay.is_some() {
                replay_state = n.clone();
            } else if !seen.contains_key(&n) {
                seen.insert(n.clone(), (Some(s.clone()), Some(op.clone())));
                queue.push_back(n);
            }
        }
    }
    let _ = std::fs::remove_dir_all(&dir);
    (seen.len(), transitions, samples)
}

pub fn run(tier: Tier) {
    std::panic::set_hook(Box::new(|_| {}));
    let mut st = Stats::new();
    let mut per_mode = BTreeMap::new();
    let mut states = 0;
    let mut transitions = 0;
    let mut samples = Vec::new();
    for mode in [Mode::FileExplicit, Mode::FileDefault, Mode::Directory, Mode::FileExplicitFormat, Mode::DirectoryFormat, Mode::DirectoryExplicit] {
        let (s, t, smp) = explore(mode, tier, &mut st, None);
        per_mode.insert(format!("{:?}", mode), json!({"states": s, "transitions": t}));
        states += s;
        transitions += t;
        samples.extend(smp);
    }
    st.samples = samples;
    st.finish(json!({"states": states, "transitions": transitions, "traces_validated_against_impl": st.evaluations, "per_mode": per_mode,
        "exhaustive": true,
        "explanation": "breadth-first search to the fixpoint of the reachable state set; every run transition executed by the real Compile on a real directory"}));
}
