use serde_json::{json, Value};
use std::collections::BTreeMap;
use std::io::Write;

pub fn emit(v: Value) {
    let out = std::io::stdout();
    let mut l = out.lock();
    let _ = writeln!(l, "{}", v);
    let _ = l.flush();
}

#[derive(Default)]
pub struct Stats {
    pub evaluations: u64,
    pub nontrivial: u64,
    pub violations: u64,
    pub outcomes: std::collections::BTreeSet<u64>,
    pub samples: Vec<Value>,
    pub extra: BTreeMap<String, u64>,
    pub max_viol: u64,
}

impl Stats {
    pub fn new() -> Self {
        Stats { max_viol: 25, ..Default::default() }
    }
    pub fn bump(&mut self, k: &str, n: u64) {
        *self.extra.entry(k.to_string()).or_insert(0) += n;
    }
    pub fn outcome(&mut self, s: &str) {
        if self.outcomes.len() < 500_000 {
            self.outcomes.insert(refpeg::enumerate::fnv(s));
        }
    }
    pub fn sample(&mut self, f: impl FnOnce() -> Value) {
        // 1st, 10th, 100th, ... evaluation
        let n = self.evaluations;
        if self.samples.len() < 8 && (n == 1 || n == 7 || n == 60 || n == 500 || n == 4000 || n == 30000 || n == 200000) {
            self.samples.push(f());
        }
    }
    pub fn violation(&mut self, prop: &str, kind: &str, fields: Value) {
        self.violations += 1;
        if self.violations <= self.max_viol {
            let mut v = json!({"k": "viol", "prop": prop, "kind": kind});
            if let (Some(o), Some(f)) = (v.as_object_mut(), fields.as_object()) {
                for (k, val) in f {
                    o.insert(k.clone(), val.clone());
                }
            }
            emit(v);
        }
    }
    pub fn merge(&mut self, other: Stats) {
        self.evaluations += other.evaluations;
        self.nontrivial += other.nontrivial;
        self.violations += other.violations;
        self.outcomes.extend(other.outcomes);
        for s in other.samples {
            if self.samples.len() < 8 {
                self.samples.push(s);
            }
        }
        for (k, v) in other.extra {
            *self.extra.entry(k).or_insert(0) += v;
        }
    }
    pub fn finish(&self, more: Value) {
        let mut v = json!({
            "k": "stats", "evaluations": self.evaluations, "nontrivial": self.nontrivial, "violations": self.violations,
            "distinct_outcomes": self.outcomes.len(), "samples": self.samples, "extra": self.extra,
        });
        if let (Some(o), Some(f)) = (v.as_object_mut(), more.as_object()) {
            for (k, val) in f {
                o.insert(k.clone(), val.clone());
            }
        }
        emit(v);
    }
}

pub fn strip_ansi(s: &str) -> String {
    let mut out = String::new();
    let mut it = s.chars().peekable();
    while let Some(c) = it.next() {
        if c == '\u{1b}' {
            if it.peek() == Some(&'[') {
                it.next();
                for d in it.by_ref() {
                    if d.is_ascii_alphabetic() {
                        break;
                    }
                }
            }
        } else {
            out.push(c);
        }
    }
    out
}

pub fn panic_message(p: Box<dyn std::any::Any + Send>) -> String {
    if let Some(s) = p.downcast_ref::<&str>() {
        s.to_string()
    } else if let Some(s) = p.downcast_ref::<String>() {
        s.clone()
    } else {
        "<non-string panic>".into()
    }
}
