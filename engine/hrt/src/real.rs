//! Driving real generated parsers: outcome capture, recording tracer.

use peginator::{IndentedTracer, NoopTracer, ParseError, ParseResult, ParseSettings, ParseState, ParseTracer, PegParserAdvanced};
use std::cell::RefCell;
use std::fmt::Debug;
use std::panic::{catch_unwind, AssertUnwindSafe};

#[derive(Clone, Copy, Debug, PartialEq, Eq)]
pub enum Mode {
    Plain,
    /// with the recording tracer
    Recorded,
    /// `parse_with_trace` (IndentedTracer, prints to stderr)
    Indented,
    /// with a tracer that yields to the shuttle scheduler at every callback
    Yielding,
}

#[derive(Clone, Debug, PartialEq, Eq)]
pub enum Real {
    Ok(String),
    Err { pos: usize, spec: String },
    Panic(String),
}

impl Real {
    pub fn is_ok(&self) -> bool {
        matches!(self, Real::Ok(_))
    }
    pub fn short(&self) -> String {
        match self {
            Real::Ok(s) => format!("Ok({s})"),
            Real::Err { pos, spec } => format!("Err(position {pos}, {spec})"),
            Real::Panic(m) => format!("PANIC({m})"),
        }
    }
}

#[derive(Clone, Debug, PartialEq, Eq)]
pub enum TEvent {
    Start { rule: String, pos: usize },
    Result { ok: bool, end: usize },
    Info(String),
}

thread_local! {
    pub static TRACE: RefCell<Vec<TEvent>> = RefCell::new(Vec::new());
    pub static INPUT_LEN: RefCell<usize> = RefCell::new(0);
}

/// installed once by the scheduler harness (shuttle::thread::yield_now)
pub static YIELD_FN: std::sync::OnceLock<fn()> = std::sync::OnceLock::new();

#[derive(Clone, Copy)]
pub struct RecTracer;

impl ParseTracer for RecTracer {
    fn print_informative(&mut self, s: &str) {
        TRACE.with(|t| t.borrow_mut().push(TEvent::Info(s.to_string())));
    }
    fn print_trace_start(&mut self, state: &ParseState, name: &str) {
        let len = INPUT_LEN.with(|l| *l.borrow());
        TRACE.with(|t| t.borrow_mut().push(TEvent::Start { rule: name.to_string(), pos: len - state.s().len() }));
    }
    fn print_trace_result<T>(&mut self, result: &ParseResult<T>) {
        let len = INPUT_LEN.with(|l| *l.borrow());
        let ev = match result {
            Ok(ok) => TEvent::Result { ok: true, end: len - ok.state.s().len() },
            Err(_) => TEvent::Result { ok: false, end: 0 },
        };
        TRACE.with(|t| t.borrow_mut().push(ev));
    }
    fn new() -> Self {
        RecTracer
    }
}

/// Every callback is a scheduling point (the function is installed by the scheduler harness).
#[derive(Clone, Copy)]
pub struct YieldTracer;

/// set by the schedule explorer around each exhaustive run (user functions yield only inside it)
pub static IN_SCHEDULER: std::sync::atomic::AtomicBool = std::sync::atomic::AtomicBool::new(false);

pub fn do_yield() {
    if IN_SCHEDULER.load(std::sync::atomic::Ordering::Relaxed) {
        if let Some(f) = YIELD_FN.get() {
            f()
        }
    }
}

impl ParseTracer for YieldTracer {
    fn print_informative(&mut self, _s: &str) {
        do_yield()
    }
    fn print_trace_start(&mut self, _state: &ParseState, _name: &str) {
        do_yield()
    }
    fn print_trace_result<T>(&mut self, _result: &ParseResult<T>) {
        do_yield()
    }
    fn new() -> Self {
        YieldTracer
    }
}

thread_local! {
    /// when set, every user function (check / extern) first runs this traced parse: a traced parse nested inside a
    /// traced parse on the same thread, as a user function that uses a peginator parser itself would cause
    pub static NESTED: RefCell<Option<(fn(&str, Mode) -> Real, String)>> = RefCell::new(None);
    static IN_NESTED: std::cell::Cell<bool> = std::cell::Cell::new(false);
}

pub fn maybe_nested_traced_parse() {
    if IN_NESTED.with(|c| c.get()) {
        return;
    }
    let job = NESTED.with(|n| n.borrow().clone());
    if let Some((f, input)) = job {
        IN_NESTED.with(|c| c.set(true));
        let saved = INPUT_LEN.with(|l| *l.borrow());
        let _ = f(&input, Mode::Indented);
        INPUT_LEN.with(|l| *l.borrow_mut() = saved);
        IN_NESTED.with(|c| c.set(false));
    }
}

pub fn take_trace() -> Vec<TEvent> {
    TRACE.with(|t| std::mem::take(&mut *t.borrow_mut()))
}

fn panic_message(p: Box<dyn std::any::Any + Send>) -> String {
    if let Some(s) = p.downcast_ref::<&str>() {
        s.to_string()
    } else if let Some(s) = p.downcast_ref::<String>() {
        s.clone()
    } else {
        "<non-string panic>".into()
    }
}

fn finish<T: Debug>(r: std::thread::Result<Result<T, ParseError>>) -> Real {
    match r {
        Ok(Ok(v)) => Real::Ok(format!("{:?}", v)),
        Ok(Err(e)) => Real::Err { pos: e.position, spec: format!("{:?}", e.specifics) },
        Err(p) => Real::Panic(panic_message(p)),
    }
}

pub fn run_parse<T: PegParserAdvanced<()> + Debug>(input: &str, mode: Mode) -> Real {
    INPUT_LEN.with(|l| *l.borrow_mut() = input.len());
    TRACE.with(|t| t.borrow_mut().clear());
    let s = ParseSettings::default();
    let r = catch_unwind(AssertUnwindSafe(|| match mode {
        // the public entry points themselves where they exist: `parse` and `parse_with_trace`
        Mode::Plain => <T as peginator::PegParser>::parse(input),
        Mode::Recorded => T::parse_advanced::<RecTracer>(input, &s, ()),
        Mode::Indented => <T as peginator::PegParser>::parse_with_trace(input),
        Mode::Yielding => T::parse_advanced::<YieldTracer>(input, &s, ()),
    }));
    finish(r)
}

pub fn run_parse_ctx<T>(input: &str, mode: Mode) -> Real
where
    T: for<'c> PegParserAdvanced<&'c mut crate::user::Ctx> + Debug,
{
    INPUT_LEN.with(|l| *l.borrow_mut() = input.len());
    TRACE.with(|t| t.borrow_mut().clear());
    let s = ParseSettings::default();
    let mut ctx = crate::user::Ctx::default();
    let id = &mut ctx as *mut crate::user::Ctx as usize;
    crate::user::ENV.with(|e| e.borrow_mut().ctx_ids.push(id));
    let r = catch_unwind(AssertUnwindSafe(|| match mode {
        Mode::Plain => T::parse_advanced::<NoopTracer>(input, &s, &mut ctx),
        Mode::Recorded => T::parse_advanced::<RecTracer>(input, &s, &mut ctx),
        Mode::Indented => T::parse_advanced::<IndentedTracer>(input, &s, &mut ctx),
        Mode::Yielding => T::parse_advanced::<YieldTracer>(input, &s, &mut ctx),
    }));
    finish(r)
}

pub fn silence_panics() {
    std::panic::set_hook(Box::new(|_| {}));
}
