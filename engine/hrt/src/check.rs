//! Property comparators: real generated parser vs reference model, over every enumerated input.

use crate::real::{take_trace, Mode, Real, TEvent};
use crate::user::{self, Answers, ExtAnswer, RefHooks};
use crate::{emit, Entry, Opts, PROGRESS_CASE, PROGRESS_INPUT, PROGRESS_TICK};
use refpeg::ast::*;
use refpeg::corpus::Case;
use refpeg::dbg::{self, DVal};
use refpeg::interp::{self, AttemptKind, Event, Options, Outcome};
use serde_json::json;
use std::collections::{BTreeMap, BTreeSet};
use std::sync::atomic::Ordering;

pub struct Sink {
    pub prop: String,
    pub max_viol: usize,
    pub violations: usize,
    pub evaluations: u64,
    pub nontrivial: u64,
    pub accepted: u64,
    pub rejected: u64,
    pub ref_gave_up: u64,
    pub cases_run: u64,
    pub groups_run: u64,
    pub outcomes: BTreeSet<u64>,
    pub samples: Vec<serde_json::Value>,
    pub extra: BTreeMap<String, u64>,
    pub viol_cases: BTreeSet<usize>,
}

impl Sink {
    pub fn new(opts: &Opts) -> Self {
        Sink {
            prop: opts.prop.clone(),
            max_viol: opts.max_viol,
            violations: 0,
            evaluations: 0,
            nontrivial: 0,
            accepted: 0,
            rejected: 0,
            ref_gave_up: 0,
            cases_run: 0,
            groups_run: 0,
            outcomes: BTreeSet::new(),
            samples: Vec::new(),
            extra: BTreeMap::new(),
            viol_cases: BTreeSet::new(),
        }
    }
    pub fn bump(&mut self, key: &str, n: u64) {
        *self.extra.entry(key.to_string()).or_insert(0) += n;
    }
    pub fn outcome(&mut self, s: &str) {
        if self.outcomes.len() < 200_000 {
            self.outcomes.insert(refpeg::enumerate::fnv(s));
        }
    }
    pub fn sample(&mut self, v: impl FnOnce() -> serde_json::Value) {
        // spread over the run: the 1st, 40th, 900th, 15000th ... evaluation
        let n = self.evaluations;
        if self.samples.len() < 6 && (n <= 1 || n == 40 || n == 900 || n == 15_000 || n == 200_000 || n == 3_000_000) {
            self.samples.push(v());
        }
    }
    pub fn violation(&mut self, case: &Case, input: &str, kind: &str, expected: String, actual: String, extra: serde_json::Value) {
        self.violations += 1;
        // at most 3 reports per case, max_viol per shard: one bug usually shows on thousands of pairs
        let per_case_first = self.viol_cases.insert(case.id);
        if self.violations <= self.max_viol || (per_case_first && self.viol_cases.len() <= self.max_viol) {
            emit(json!({
                "k": "viol", "prop": self.prop, "kind": kind, "case": crate::case_json(case), "input": input,
                "expected": expected, "actual": actual, "extra": extra,
            }));
        }
    }
    pub fn finish(&self) {
        emit(json!({
            "k": "stats", "violations": self.violations, "evaluations": self.evaluations, "nontrivial": self.nontrivial,
            "accepted": self.accepted, "rejected": self.rejected, "ref_gave_up": self.ref_gave_up, "cases_run": self.cases_run,
            "groups_run": self.groups_run, "distinct_outcomes": self.outcomes.len(), "samples": self.samples, "extra": self.extra,
        }));
    }
}

fn skip(opts: &Opts, case: usize, input: usize) -> bool {
    opts.skip.iter().any(|(c, i)| *c == case && (i.is_none() || *i == Some(input)))
}

fn progress(opts: &Opts, case: usize, input: usize) {
    PROGRESS_CASE.store(case, Ordering::Relaxed);
    PROGRESS_INPUT.store(input, Ordering::Relaxed);
    PROGRESS_TICK.fetch_add(1, Ordering::Relaxed);
    if opts.verbose_progress {
        emit(json!({"k":"in","case":case,"i":input}));
    }
}

pub fn run(opts: &Opts, corpus: &[Case], reg: &BTreeMap<usize, &Entry>, sink: &mut Sink) {
    let mut groups: BTreeMap<usize, Vec<&Case>> = BTreeMap::new();
    for c in corpus {
        if reg.contains_key(&c.id) {
            groups.entry(c.group).or_default().push(c);
        }
    }
    for (_gid, cases) in groups {
        if let Some(only) = opts.only {
            if !cases.iter().any(|c| c.id == only) {
                continue;
            }
        }
        emit(json!({"k":"at","case":cases[0].id}));
        sink.groups_run += 1;
        sink.cases_run += cases.len() as u64;
        match opts.prop.as_str() {
            "C01" | "C02" | "C04" | "C08" | "C09" | "C10" | "C07" | "C12" => {
                for c in cases {
                    single(opts, c, reg[&c.id], sink)
                }
            }
            "C03" => {
                // rustc has already judged the generated code and the exact-type assertions
                for c in cases {
                    sink.evaluations += 1;
                    if !c.grammar.rules.iter().all(|r| r.body().map(|b| c.grammar.field_types(b).is_empty()).unwrap_or(true)) {
                        sink.nontrivial += 1;
                    }
                    sink.outcome(&c.text);
                    sink.sample(|| json!({"grammar": c.text, "derives": c.derives, "assertions": refpeg::shape::assertions(&c.grammar, &c.derives)}));
                }
            }
            "C05" => memo_group(opts, &cases, reg, sink),
            "C13" => include_group(opts, &cases, reg, sink),
            "C06" => {
                for c in cases {
                    probes(opts, c, reg[&c.id], sink)
                }
            }
            "C14" => {
                for c in cases {
                    hooks_case(opts, c, reg[&c.id], sink)
                }
            }
            "C19" => {
                for c in cases {
                    trace_case(opts, c, reg[&c.id], sink)
                }
            }
            "C20" => {
                for c in cases {
                    history_case(opts, c, reg[&c.id], sink)
                }
            }
            other => panic!("no comparator for {other}"),
        }
    }
}

pub fn reference(case: &Case, input: &str, answers: &Answers, opts: Options) -> Outcome {
    let mut hooks = RefHooks { answers, budget: user::BUDGET };
    interp::run(&case.grammar, &case.root, input, &mut hooks, opts)
}

pub struct RealView {
    pub dval: DVal,
    pub nopos: String,
    pub pos: String,
    pub end: Option<usize>,
}

pub fn view(s: &str) -> Result<RealView, String> {
    let dval = dbg::parse_debug(s)?;
    let nopos = dbg::canon_top(&dval, false);
    let pos = dbg::canon_top(&dval, true);
    let end = match &dval {
        DVal::Struct(_, fields) => fields.iter().find_map(|(f, v)| match (f.as_str(), v) {
            ("position", DVal::Range(_, b)) => Some(*b),
            _ => None,
        }),
        _ => None,
    };
    Ok(RealView { dval, nopos, pos, end })
}

fn has_memo_or_leftrec(g: &Grammar) -> bool {
    g.rules.iter().any(|r| {
        let f = r.flags();
        f.memoize || f.leftrec
    })
}

fn has_leftrec(g: &Grammar) -> bool {
    g.rules.iter().any(|r| r.flags().leftrec)
}

/// The comparison shared by C01, C02, C04, C07, C08, C09, C10: which kinds of disagreement count is
/// decided per property.
fn single(opts: &Opts, case: &Case, entry: &Entry, sink: &mut Sink) {
    let inputs = case.inputs.materialize();
    let prop = opts.prop.as_str();
    let answers = Answers::default();
    let memo_or_lr = has_memo_or_leftrec(&case.grammar);
    for (i, input) in inputs.iter().enumerate() {
        if skip(opts, case.id, i) {
            continue;
        }
        progress(opts, case.id, i);
        let r = reference(case, input, &answers, Options::pure());
        if r.gave_up {
            sink.ref_gave_up += 1;
            continue;
        }
        user::reset(answers.clone());
        let real = (entry.run)(input, Mode::Plain);
        sink.evaluations += 1;
        sink.outcome(&format!("{}|{}", case.id, real.short()));
        let viol = |sink: &mut Sink, kind: &str, exp: String, act: String| {
            sink.violation(case, input, kind, exp, act, json!({}));
        };
        if prop == "C04" && case.note.contains("traced-too") {
            // the traced entry point of the same parser must not panic either, and must agree
            user::reset(answers.clone());
            let traced = (entry.run)(input, Mode::Indented);
            sink.bump("traced_runs", 1);
            if traced != real {
                viol(sink, "traced-entry-point-differs", real.short(), traced.short());
                continue;
            }
        }
        match (&r.result, &real) {
            (_, Real::Panic(m)) => {
                if matches!(prop, "C01" | "C04" | "C07" | "C08" | "C12") {
                    viol(sink, "panic", format!("{}", if r.accepted() { "Ok" } else { "Err" }), format!("panic: {m}"));
                }
            }
            (Ok((end, val)), Real::Ok(s)) => {
                sink.accepted += 1;
                let v = match view(s) {
                    Ok(v) => v,
                    Err(e) => {
                        emit(json!({"k":"machinery","msg":format!("cannot read Debug output {s:?}: {e}")}));
                        std::process::exit(2);
                    }
                };
                let exp_nopos = val.canon_top(false, false);
                let exp_pos = val.canon_top(true, false);
                let nontrivial = match prop {
                    "C02" => exp_nopos.contains('"') || exp_nopos.contains('\''),
                    "C09" => exp_pos.contains('@'),
                    _ => *end > 0,
                };
                if nontrivial {
                    sink.nontrivial += 1;
                }
                sink.sample(|| json!({"grammar": case.text, "input": input, "reference": exp_pos, "real": s}));
                if prop == "C07" && case.note.contains("closed-form") {
                    match closed_form_leftrec(&case.grammar, input) {
                        Some(Some((cend, ctree))) if cend == *end && ctree == exp_nopos => sink.bump("closed_form_checks", 1),
                        other => {
                            emit(json!({"k":"machinery","msg":format!("reference interpreter disagrees with the closed form on {:?} / {:?}: {:?} vs {} {}", case.text, input, other, end, exp_nopos)}));
                            std::process::exit(2);
                        }
                    }
                }
                if matches!(prop, "C01" | "C04" | "C07" | "C08" | "C12") {
                    if let Some(re) = v.end {
                        if re != *end {
                            viol(sink, "end", format!("consumed {end} bytes"), format!("consumed {re} bytes: {s}"));
                            continue;
                        }
                    }
                }
                if matches!(prop, "C02" | "C07" | "C08" | "C04") && v.nopos != exp_nopos {
                    viol(sink, "tree", exp_nopos.clone(), format!("{} (from {s})", v.nopos));
                    continue;
                }
                if matches!(prop, "C09" | "C08" | "C07") && v.nopos == exp_nopos && v.pos != exp_pos {
                    viol(sink, "position", exp_pos.clone(), format!("{} (from {s})", v.pos));
                    continue;
                }
                if matches!(prop, "C09" | "C04") {
                    if let Some(msg) = position_invariants(&v.dval, input) {
                        viol(sink, "position-invariant", "nested ranges inside parent, successive ranges ordered, on char boundaries; @string @position slice equals string".into(), format!("{msg}: {s}"));
                        continue;
                    }
                }
                if prop == "C04" {
                    let mut strs = Vec::new();
                    dbg::strings(&v.dval, &mut strs);
                    if let Some(bad) = strs.iter().find(|x| !input.contains(x.as_str())) {
                        viol(sink, "string-not-substring", "every string of the tree is a substring of the input".into(), format!("{bad:?} in {s}"));
                    }
                }
            }
            (Err(()), Real::Err { pos, spec }) => {
                sink.rejected += 1;
                if prop == "C07" && case.note.contains("closed-form") {
                    match closed_form_leftrec(&case.grammar, input) {
                        Some(None) => sink.bump("closed_form_checks", 1),
                        other => {
                            emit(json!({"k":"machinery","msg":format!("reference interpreter rejects but the closed form says {:?} on {:?} / {:?}", other, case.text, input)}));
                            std::process::exit(2);
                        }
                    }
                }
                if prop == "C10" {
                    sink.nontrivial += 1;
                    sink.sample(|| json!({"grammar": case.text, "input": input, "real_error": format!("{pos} {spec}"),
                        "reference_furthest": r.max_attempt(0)}));
                }
                if matches!(prop, "C10" | "C04") {
                    if *pos > input.len() || !input.is_char_boundary(*pos) {
                        viol(sink, "error-offset-boundary", format!("a char boundary <= {}", input.len()), format!("{pos}"));
                        continue;
                    }
                }
                if prop == "C10" {
                    error_rules(case, input, &r, *pos, spec, memo_or_lr, sink);
                }
            }
            (Ok((end, val)), Real::Err { pos, spec }) => {
                if matches!(prop, "C01" | "C04" | "C07" | "C08" | "C12") {
                    viol(sink, "accept", format!("Ok, {} bytes, {}", end, val.canon_top(true, false)), format!("Err at {pos}: {spec}"));
                }
            }
            (Err(()), Real::Ok(s)) => {
                if matches!(prop, "C01" | "C04" | "C07" | "C08" | "C12") {
                    viol(sink, "accept", "Err".into(), format!("Ok: {s}"));
                }
            }
        }
    }
}

/// model-free invariants on the positions of a real result tree: every range is a valid span on
/// char boundaries, lies inside the nearest enclosing range, successive matches stored in one field
/// are in input order and do not overlap, and a `@string @position` node's string is that slice.
fn position_invariants(v: &DVal, input: &str) -> Option<String> {
    fn own_range(v: &DVal) -> Option<(usize, usize)> {
        match v {
            DVal::Struct(_, fields) => fields.iter().find_map(|(f, val)| match (f.as_str(), val) {
                ("position", DVal::Range(a, b)) => Some((*a, *b)),
                _ => None,
            }),
            DVal::Tuple(_, items) if items.len() == 1 => own_range(&items[0]),
            _ => None,
        }
    }
    fn items_of(v: &DVal) -> Vec<&DVal> {
        match v {
            DVal::List(items) => items.iter().collect(),
            DVal::Tuple(n, items) if n == "Some" => items.iter().collect(),
            other => vec![other],
        }
    }
    fn inv(v: &DVal, parent: Option<(usize, usize)>, input: &str) -> Option<String> {
        match v {
            DVal::Struct(_, fields) => {
                let own = own_range(v);
                if let Some((a, b)) = own {
                    if a > b || b > input.len() || !input.is_char_boundary(a) || !input.is_char_boundary(b) {
                        return Some(format!("range {a}..{b} is not a valid span of the input"));
                    }
                    if let Some((pa, pb)) = parent {
                        if a < pa || b > pb {
                            return Some(format!("range {a}..{b} outside parent {pa}..{pb}"));
                        }
                    }
                }
                for (f, val) in fields {
                    if f == "position" {
                        continue;
                    }
                    let mut last_end: Option<usize> = None;
                    for item in items_of(val) {
                        if let Some((a, b)) = own_range(item) {
                            if let Some(le) = last_end {
                                if a < le {
                                    return Some(format!("field {f}: range {a}..{b} starts before the end {le} of the previous match"));
                                }
                            }
                            last_end = Some(b);
                        }
                        if let Some(m) = inv(item, own.or(parent), input) {
                            return Some(m);
                        }
                    }
                }
                None
            }
            DVal::Tuple(_, items) | DVal::List(items) => items.iter().find_map(|i| inv(i, parent, input)),
            _ => None,
        }
    }
    if let Some(m) = inv(v, None, input) {
        return Some(m);
    }
    let mut sp = Vec::new();
    dbg::string_position_nodes(v, &mut sp);
    for (s, a, b) in sp {
        if b > input.len() || a > b || !input.is_char_boundary(a) || !input.is_char_boundary(b) || &input[a..b] != s {
            return Some(format!("@string @position node {s:?} at {a}..{b} is not that slice of the input"));
        }
    }
    None
}

/// C10
fn error_rules(case: &Case, input: &str, r: &Outcome, pos: usize, spec: &str, memo_or_lr: bool, sink: &mut Sink) {
    let all_offsets: BTreeSet<usize> = r.attempts.iter().map(|a| a.pos).collect();
    if !all_offsets.contains(&pos) {
        sink.violation(
            case,
            input,
            "error-offset-not-an-attempt",
            format!("one of the offsets where a match attempt failed: {:?}", all_offsets),
            format!("{pos} ({spec})"),
            json!({}),
        );
        return;
    }
    let here: BTreeSet<String> = r.attempts.iter().filter(|a| a.pos == pos).map(|a| a.kind.debug()).collect();
    if !here.contains(spec) {
        sink.violation(case, input, "error-detail", format!("one of {:?} (the attempts that failed at {pos})", here), spec.to_string(), json!({}));
        return;
    }
    if !memo_or_lr {
        let strict = r.max_attempt(0);
        let lenient = r.max_attempt(1);
        if let (Some(s), Some(l)) = (strict, lenient) {
            if pos < s || pos > l {
                sink.violation(
                    case,
                    input,
                    "error-not-furthest",
                    if s == l { format!("furthest failure offset {s}") } else { format!("furthest failure offset in [{s}, {l}]") },
                    format!("{pos} ({spec})"),
                    json!({}),
                );
                return;
            }
            if s == l {
                sink.bump("exact_furthest_checks", 1);
            } else {
                sink.bump("bracket_furthest_checks", 1);
            }
        }
    } else if has_leftrec(&case.grammar) && case.note.contains("recursive-first") && spec == AttemptKind::Sentinel.debug() {
        sink.violation(case, input, "sentinel-leak", "any real failed attempt".into(), spec.to_string(), json!({}));
    }
}

// ------------------------------------------------------------------------------------------ C07

/// Closed form for `@leftrec A = l:*A t1 | ... | b1 | ...` (recursive alternatives first, tails and bases
/// made of literals and `N` fields): accepted prefix = first matching base, then greedily the first
/// matching tail, again and again; tree = left fold. Computed without the interpreter.
/// Returns None when the grammar is not of that shape, Some(None) when A (hence Root) does not match.
pub fn closed_form_leftrec(g: &Grammar, input: &str) -> Option<Option<(usize, String)>> {
    let a = g.rule("A")?;
    let root = g.rule("Root")?;
    let Some(Expr::Choice(arms)) = a.body() else { return None };
    let parts_of = |e: &Expr| -> Vec<Expr> {
        match e {
            Expr::Seq(v) => v.clone(),
            other => vec![other.clone()],
        }
    };
    let mut tails: Vec<Vec<Expr>> = Vec::new();
    let mut bases: Vec<Vec<Expr>> = Vec::new();
    let mut names: BTreeSet<String> = BTreeSet::new();
    for arm in arms {
        let ps = parts_of(arm);
        for p in &ps {
            if let Expr::Ref { name: FieldName::Named(n), .. } = p {
                names.insert(n.clone());
            }
        }
        match ps.first() {
            Some(Expr::Ref { rule, name: FieldName::Named(n), .. }) if rule == "A" && n == "l" => tails.push(ps[1..].to_vec()),
            _ => bases.push(ps),
        }
    }
    // match a list of literal / N-field parts at pos
    fn m(parts: &[Expr], input: &str, mut pos: usize) -> Option<(usize, Vec<(String, String)>)> {
        let mut fields = Vec::new();
        for p in parts {
            match p {
                Expr::Lit { chars, .. } => {
                    let s: String = chars.iter().map(|c| c.c).collect();
                    if input[pos..].starts_with(&s) {
                        pos += s.len();
                    } else {
                        return None;
                    }
                }
                Expr::Ref { name: FieldName::Named(n), rule, .. } if rule == "N" => {
                    if input[pos..].starts_with('n') {
                        fields.push((n.clone(), "\"n\"".to_string()));
                        pos += 1;
                    } else {
                        return None;
                    }
                }
                _ => return None,
            }
        }
        Some((pos, fields))
    }
    let render = |fields: &[(String, String)]| -> String {
        let body: Vec<String> = names
            .iter()
            .map(|n| {
                let vals: Vec<String> = fields.iter().filter(|(f, _)| f == n).map(|(_, v)| v.clone()).collect();
                format!("{n}:[{}]", vals.join(","))
            })
            .collect();
        format!("A{{{}}}", body.join(","))
    };
    let mut cur: Option<(usize, String)> = None;
    for b in &bases {
        if let Some((end, fields)) = m(b, input, 0) {
            cur = Some((end, render(&fields)));
            break;
        }
    }
    let Some((mut end, mut tree)) = cur else { return Some(None) };
    'grow: loop {
        for t in &tails {
            if let Some((e2, mut fields)) = m(t, input, end) {
                if e2 > end {
                    fields.push(("l".into(), tree.clone()));
                    tree = render(&fields);
                    end = e2;
                    continue 'grow;
                }
            }
        }
        break;
    }
    // Root = a:A  or  a:A $
    let needs_eoi = matches!(root.body(), Some(Expr::Seq(v)) if v.iter().any(|p| matches!(p, Expr::Eoi)));
    if needs_eoi && end != input.len() {
        return Some(None);
    }
    Some(Some((end, format!("Root{{a:[{tree}]}}"))))
}

// ------------------------------------------------------------------------------------------ C05

fn memo_group(opts: &Opts, cases: &[&Case], reg: &BTreeMap<usize, &Entry>, sink: &mut Sink) {
    let base = match cases.iter().find(|c| c.variant == 0) {
        Some(b) => *b,
        None => {
            sink.bump("groups_without_base", 1);
            return;
        }
    };
    let inputs = base.inputs.materialize();
    let answers = Answers::default();
    let base_entry = reg[&base.id];
    let mut base_results: Vec<Real> = Vec::with_capacity(inputs.len());
    for (i, input) in inputs.iter().enumerate() {
        progress(opts, base.id, i);
        user::reset(answers.clone());
        let real0 = (base_entry.run)(input, Mode::Plain);
        // the un-memoized variant against the reference (keeps the differential oracle honest)
        let r = reference(base, input, &answers, Options::pure());
        if !r.gave_up {
            let agree = match (&r.result, &real0) {
                (Ok((_, val)), Real::Ok(s)) => view(s).map(|v| v.pos == val.canon_top(true, false)).unwrap_or(false),
                (Err(()), Real::Err { .. }) => true,
                _ => false,
            };
            if !agree {
                sink.bump("base_disagrees_with_reference", 1);
            }
        }
        base_results.push(real0);
    }
    for c in cases.iter().filter(|c| c.variant != 0) {
        let e = reg[&c.id];
        for (i, input) in inputs.iter().enumerate() {
            if skip(opts, c.id, i) {
                continue;
            }
            progress(opts, c.id, i);
            user::reset(answers.clone());
            let real = (e.run)(input, Mode::Plain);
            sink.evaluations += 1;
            sink.outcome(&format!("{}|{}", base.id, real.short()));
            let same = match (&base_results[i], &real) {
                (Real::Ok(a), Real::Ok(b)) => a == b,
                (Real::Err { .. }, Real::Err { .. }) => true,
                _ => false,
            };
            if real.is_ok() {
                sink.nontrivial += 1;
            }
            sink.sample(|| json!({"base": base.text, "variant": c.text, "input": input, "result": real.short()}));
            if !same {
                sink.violation(c, input, "memo-changes-result", base_results[i].short(), real.short(), json!({"base_grammar": base.text}));
            }
        }
        // histories: every ordered pair of a smaller input set parsed back to back on one thread
        let hist_n = inputs.len().min(if opts.tier == refpeg::corpus::Tier::Quick { 13 } else { 40 });
        for i in 0..hist_n {
            for j in 0..hist_n {
                progress(opts, c.id, j);
                user::reset(answers.clone());
                let _first = (e.run)(&inputs[i], Mode::Plain);
                let second = (e.run)(&inputs[j], Mode::Plain);
                sink.bump("history_pairs", 1);
                let same = match (&base_results[j], &second) {
                    (Real::Ok(a), Real::Ok(b)) => a == b,
                    (Real::Err { .. }, Real::Err { .. }) => true,
                    _ => false,
                };
                if !same {
                    sink.violation(
                        c,
                        &inputs[j],
                        "result-depends-on-earlier-parse",
                        base_results[j].short(),
                        second.short(),
                        json!({"history": [inputs[i], inputs[j]], "base_grammar": base.text}),
                    );
                }
            }
        }
    }
}

// ------------------------------------------------------------------------------------------ C13

fn include_group(opts: &Opts, cases: &[&Case], reg: &BTreeMap<usize, &Entry>, sink: &mut Sink) {
    if cases.len() != 2 {
        sink.bump("incomplete_groups", 1);
        return;
    }
    let (a, b) = (cases[0], cases[1]);
    let inputs = a.inputs.materialize();
    let answers = Answers::default();
    for (i, input) in inputs.iter().enumerate() {
        if skip(opts, a.id, i) {
            continue;
        }
        progress(opts, a.id, i);
        user::reset(answers.clone());
        let ra = (reg[&a.id].run)(input, Mode::Plain);
        user::reset(answers.clone());
        let rb = (reg[&b.id].run)(input, Mode::Plain);
        sink.evaluations += 1;
        sink.outcome(&format!("{}|{}", a.id, ra.short()));
        if ra.is_ok() {
            sink.nontrivial += 1;
        }
        sink.sample(|| json!({"include": a.text, "inlined": b.text, "input": input, "include_result": ra.short(), "inlined_result": rb.short()}));
        let same = match (&ra, &rb) {
            (Real::Ok(x), Real::Ok(y)) => x == y,
            (Real::Err { pos: p, .. }, Real::Err { pos: q, .. }) => p == q,
            _ => false,
        };
        if !same {
            sink.violation(a, input, "include-differs-from-inlined", format!("inlined: {}", rb.short()), format!("include: {}", ra.short()), json!({"inlined_grammar": b.text}));
            continue;
        }
        // and both equal the reference, whose Include *is* textual inlining
        let r = reference(a, input, &answers, Options::pure());
        if r.gave_up {
            sink.ref_gave_up += 1;
            continue;
        }
        let agree = match (&r.result, &ra) {
            (Ok((_, val)), Real::Ok(s)) => view(s).map(|v| v.pos == val.canon_top(true, false)).unwrap_or(false),
            (Err(()), Real::Err { .. }) => true,
            _ => false,
        };
        if !agree {
            let exp = match &r.result {
                Ok((_, v)) => format!("Ok {}", v.canon_top(true, false)),
                Err(()) => "Err".into(),
            };
            sink.violation(a, input, "include-differs-from-reference", exp, ra.short(), json!({}));
        }
    }
}

// ------------------------------------------------------------------------------------------ C06

fn probe_rule_map(g: &Grammar) -> BTreeMap<String, (String, bool)> {
    // probe function -> (rule whose body it starts, memoized?)
    let mut m = BTreeMap::new();
    for r in &g.rules {
        if let RuleDef::Normal(Expr::Seq(parts)) = &r.def {
            if let Some(Expr::Ref { rule: p, .. }) = parts.first() {
                if let Some(Rule { def: RuleDef::Extern { func, .. }, .. }) = g.rule(p) {
                    m.insert(func.join("::"), (r.name.clone(), r.flags().memoize));
                }
            }
        }
    }
    m
}

fn probes(opts: &Opts, case: &Case, entry: &Entry, sink: &mut Sink) {
    let inputs = case.inputs.materialize();
    let answers = Answers::default();
    let pm = probe_rule_map(&case.grammar);
    let all_memo = case.grammar.rules.iter().filter(|r| matches!(r.def, RuleDef::Normal(_))).all(|r| r.flags().memoize);
    let n_rules = case.grammar.rules.iter().filter(|r| matches!(r.def, RuleDef::Normal(_))).count();
    for (i, input) in inputs.iter().enumerate() {
        if skip(opts, case.id, i) {
            continue;
        }
        progress(opts, case.id, i);
        let r = reference(case, input, &answers, Options::memo());
        if r.gave_up {
            sink.ref_gave_up += 1;
            continue;
        }
        user::reset(answers.clone());
        let real = (entry.run)(input, Mode::Plain);
        let calls = user::take_calls();
        sink.evaluations += 1;
        sink.outcome(&format!("{}|{}|{}", case.id, real.short(), calls.len()));
        // (function, offset) multiset
        let mut counts: BTreeMap<(String, usize), usize> = BTreeMap::new();
        // extern functions are keyed by the offset they were called at, check functions by their argument
        let key = |f: &String, arg: &String| -> (String, usize) {
            if f.contains("::chk") {
                (format!("{f}({arg})"), 0)
            } else {
                (f.clone(), input.len().saturating_sub(arg.len()))
            }
        };
        for (f, rest) in &calls {
            *counts.entry(key(f, rest)).or_insert(0) += 1;
        }
        let mut ref_counts: BTreeMap<(String, usize), usize> = BTreeMap::new();
        for (f, rest) in &r.hook_calls {
            *ref_counts.entry(key(f, rest)).or_insert(0) += 1;
        }
        let failed_memo_eval = r.rule_outcomes.iter().any(|((rule, _), outs)| {
            outs.iter().any(|(ok, _)| !*ok) && case.grammar.rule(rule).map(|r| r.flags().memoize).unwrap_or(false)
        });
        if failed_memo_eval {
            sink.nontrivial += 1;
        }
        sink.sample(|| json!({"grammar": case.text, "input": input, "probe_counts": counts.iter().map(|((f,o),n)| format!("{f}@{o}x{n}")).collect::<Vec<_>>() }));
        let mut bad = false;
        for ((f, off), n) in &counts {
            if let Some((rule, memo)) = pm.get(f) {
                if *memo && *n > 1 {
                    sink.violation(
                        case,
                        input,
                        "memoized-body-evaluated-twice",
                        format!("body of @memoize rule {rule} evaluated at most once at offset {off}"),
                        format!("{n} evaluations (probe {f})"),
                        json!({"result": real.short()}),
                    );
                    bad = true;
                    break;
                }
            }
        }
        if bad {
            continue;
        }
        if all_memo {
            let total: usize = counts.iter().filter(|((f, _), _)| !f.contains("::chk")).map(|(_, n)| *n).sum();
            let bound = n_rules * (input.len() + 1);
            if total > bound {
                sink.violation(case, input, "packrat-bound", format!("at most {bound} body evaluations"), format!("{total}"), json!({}));
                continue;
            }
        }
        if counts != ref_counts {
            // a missing evaluation, or a non-memoized rule evaluated a different number of times
            sink.violation(
                case,
                input,
                "body-evaluations-differ-from-model",
                format!("{:?}", ref_counts),
                format!("{:?}", counts),
                json!({"result": real.short()}),
            );
        }
    }
}

// ------------------------------------------------------------------------------------------ C14

fn alternatives_check(cur: bool) -> Vec<bool> {
    vec![!cur]
}

fn hooks_case(opts: &Opts, case: &Case, entry: &Entry, sink: &mut Sink) {
    let inputs = case.inputs.materialize();
    let max_dev: usize = if opts.tier == refpeg::corpus::Tier::Quick { 1 } else { 2 };
    for (i, input) in inputs.iter().enumerate() {
        if skip(opts, case.id, i) {
            continue;
        }
        progress(opts, case.id, i);
        // breadth-first over answer tables, deviation-bounded
        let mut seen: BTreeSet<Answers> = BTreeSet::new();
        let mut frontier: Vec<(Answers, usize)> = vec![(Answers::default(), 0)];
        seen.insert(Answers::default());
        let mut qi = 0;
        while qi < frontier.len() {
            let (table, dev) = frontier[qi].clone();
            qi += 1;
            PROGRESS_TICK.fetch_add(1, Ordering::Relaxed);
            let r = reference(case, input, &table, Options::pure());
            if r.gave_up {
                sink.ref_gave_up += 1;
                continue;
            }
            user::reset(table.clone());
            let real = (entry.run)(input, Mode::Plain);
            let calls = user::take_calls();
            let ctx_ids = user::take_ctx_ids();
            sink.evaluations += 1;
            sink.bump("answer_tables", 1);
            if dev > 0 {
                sink.nontrivial += 1;
            }
            sink.outcome(&format!("{}|{}|{:?}", case.id, real.short(), table));
            sink.sample(|| json!({"grammar": case.text, "input": input, "answers": format!("{:?}", table), "result": real.short(), "calls": format!("{:?}", calls)}));
            let exp = match &r.result {
                Ok((end, v)) => format!("Ok, {} bytes, {}", end, v.canon_top(true, false)),
                Err(()) => "Err".into(),
            };
            let agree = match (&r.result, &real) {
                (Ok((end, val)), Real::Ok(s)) => match view(s) {
                    Ok(v) => v.pos == val.canon_top(true, false) && v.end.map(|e| e == *end).unwrap_or(true),
                    Err(_) => false,
                },
                (Err(()), Real::Err { .. }) => true,
                _ => false,
            };
            if !agree {
                sink.violation(case, input, "hook-decides-differently", exp, real.short(), json!({"answers": format!("{:?}", table)}));
                continue;
            }
            // every argument a real function saw is one the documented semantics would pass
            let ref_set: BTreeSet<(String, String)> = r.hook_calls.iter().cloned().collect();
            if let Some(bad) = calls.iter().find(|c| !ref_set.contains(*c)) {
                sink.violation(
                    case,
                    input,
                    "hook-argument",
                    format!("one of {:?}", ref_set),
                    format!("{:?}", bad),
                    json!({"answers": format!("{:?}", table)}),
                );
                continue;
            }
            if case.user_ctx && ctx_ids.iter().collect::<BTreeSet<_>>().len() > 1 {
                sink.violation(case, input, "user-context-identity", "every function sees the caller's context object".into(), format!("{:?}", ctx_ids), json!({}));
                continue;
            }
            if dev >= max_dev {
                continue;
            }
            // successors: one more deviation on an argument seen by either side
            let mut seen_calls: BTreeSet<(String, String)> = ref_set;
            seen_calls.extend(calls.iter().cloned());
            for (f, arg) in seen_calls {
                if f.contains("::chk") {
                    let cur = *table.check.get(&(f.clone(), arg.clone())).unwrap_or(&true);
                    if table.check.contains_key(&(f.clone(), arg.clone())) {
                        continue;
                    }
                    for alt in alternatives_check(cur) {
                        let mut t = table.clone();
                        t.check.insert((f.clone(), arg.clone()), alt);
                        if seen.insert(t.clone()) {
                            frontier.push((t, dev + 1));
                        }
                    }
                } else if f.contains("::tok") || f.contains("::probe") {
                    if table.ext.contains_key(&(f.clone(), arg.clone())) {
                        continue;
                    }
                    let cur = user::ext_default(&f, &arg);
                    let nchars = arg.chars().count();
                    let mut alts = vec![ExtAnswer::Fail];
                    for n in 0..=nchars.min(2) {
                        alts.push(ExtAnswer::Take(n));
                    }
                    for alt in alts {
                        if alt == cur {
                            continue;
                        }
                        // a probe/extern answering Take(0) inside a closure would loop forever: the
                        // reference gives up on those and they are skipped above
                        let mut t = table.clone();
                        t.ext.insert((f.clone(), arg.clone()), alt);
                        if seen.insert(t.clone()) {
                            frontier.push((t, dev + 1));
                        }
                    }
                }
            }
        }
    }
}

// ------------------------------------------------------------------------------------------ C19

fn trace_case(opts: &Opts, case: &Case, entry: &Entry, sink: &mut Sink) {
    let inputs = case.inputs.materialize();
    let answers = Answers::default();
    let memo_or_lr = has_memo_or_leftrec(&case.grammar);
    for (i, input) in inputs.iter().enumerate() {
        if skip(opts, case.id, i) {
            continue;
        }
        progress(opts, case.id, i);
        user::reset(answers.clone());
        let plain = (entry.run)(input, Mode::Plain);
        user::reset(answers.clone());
        let traced = (entry.run)(input, Mode::Recorded);
        let trace = take_trace();
        sink.evaluations += 1;
        sink.outcome(&format!("{}|{}|{}", case.id, traced.short(), trace.len()));
        if trace.len() > 2 {
            sink.nontrivial += 1;
        }
        sink.sample(|| json!({"grammar": case.text, "input": input, "result": traced.short(), "events": trace.iter().map(|e| format!("{:?}", e)).collect::<Vec<_>>() }));
        if plain != traced {
            sink.violation(case, input, "tracing-changes-result", plain.short(), traced.short(), json!({}));
            continue;
        }
        // nesting
        let mut depth: i64 = 0;
        let mut stack: Vec<(String, usize)> = Vec::new();
        let mut bad: Option<String> = None;
        let r = reference(case, input, &answers, Options::memo());
        for ev in &trace {
            match ev {
                TEvent::Start { rule, pos } => {
                    depth += 1;
                    stack.push((rule.clone(), *pos));
                }
                TEvent::Result { ok, end } => {
                    depth -= 1;
                    match stack.pop() {
                        None => {
                            bad = Some("exit without a matching entry".into());
                            break;
                        }
                        Some((rule, pos)) => {
                            if !r.gave_up {
                                let outs = r.rule_outcomes.get(&(rule.clone(), pos));
                                let ok_here = outs.map(|o| o.contains(&(*ok, if *ok { *end } else { 0 }))).unwrap_or(false);
                                if !ok_here {
                                    bad = Some(format!("exit of {rule}@{pos} reports ok={ok} end={end}, the model allows {:?}", outs));
                                    break;
                                }
                            }
                        }
                    }
                }
                TEvent::Info(_) => {}
            }
            if depth < 0 {
                bad = Some("depth below zero".into());
                break;
            }
        }
        if bad.is_none() && (depth != 0 || !stack.is_empty()) {
            bad = Some(format!("{} entries without exit", stack.len()));
        }
        if let Some(msg) = bad {
            sink.violation(case, input, "trace-nesting", "properly nested entry/exit events with the model's outcomes".into(), msg, json!({"events": trace.iter().map(|e| format!("{:?}", e)).collect::<Vec<_>>() }));
            continue;
        }
        if !memo_or_lr && !r.gave_up {
            let exp: Vec<TEvent> = r
                .events
                .iter()
                .map(|e| match e {
                    Event::Enter { rule, pos } => TEvent::Start { rule: rule.clone(), pos: *pos },
                    Event::Exit { ok, end } => TEvent::Result { ok: *ok, end: if *ok { *end } else { 0 } },
                    Event::Info(s) => TEvent::Info(s.clone()),
                })
                .collect();
            if exp != trace {
                sink.violation(case, input, "trace-sequence", format!("{:?}", exp), format!("{:?}", trace), json!({}));
                continue;
            }
            sink.bump("exact_sequence_checks", 1);
        }
        // the built-in tracer on shorter inputs
        if case.note.contains("indented-all") || input.chars().count() + 2 <= max_len_of(&inputs) {
            user::reset(answers.clone());
            if case.note.contains("nested-traced") {
                // every user function runs a traced parse of the same input before it answers
                crate::real::NESTED.with(|n| *n.borrow_mut() = Some((entry.run, input.clone())));
                sink.bump("indented_runs_with_nested_traced_parses", 1);
            }
            let ind = (entry.run)(input, Mode::Indented);
            crate::real::NESTED.with(|n| *n.borrow_mut() = None);
            sink.bump("indented_runs", 1);
            if ind != plain {
                sink.violation(case, input, "parse_with_trace-changes-result", plain.short(), ind.short(), json!({}));
            }
        }
    }
}

/// run this shard binary again as `--one <case>` with the input on stdin
fn fresh_process_result(case_id: usize, input: &str) -> Option<Real> {
    use std::io::Write;
    use std::process::{Command, Stdio};
    let exe = std::env::current_exe().ok()?;
    let mut child = Command::new(exe).arg("--one").arg(case_id.to_string()).stdin(Stdio::piped()).stdout(Stdio::piped()).stderr(Stdio::null()).spawn().ok()?;
    child.stdin.take()?.write_all(input.as_bytes()).ok()?;
    let out = child.wait_with_output().ok()?;
    let v: serde_json::Value = serde_json::from_str(String::from_utf8_lossy(&out.stdout).lines().next()?).ok()?;
    Some(match v["k"].as_str()? {
        "ok" => Real::Ok(v["s"].as_str()?.to_string()),
        "err" => Real::Err { pos: v["pos"].as_u64()? as usize, spec: v["spec"].as_str()?.to_string() },
        _ => Real::Panic(v["m"].as_str().unwrap_or("").to_string()),
    })
}

fn max_len_of(inputs: &[String]) -> usize {
    inputs.iter().map(|s| s.chars().count()).max().unwrap_or(0)
}

// ------------------------------------------------------------------------------------------ C20 (sequential histories)

fn history_case(opts: &Opts, case: &Case, entry: &Entry, sink: &mut Sink) {
    let inputs = case.inputs.materialize();
    let answers = Answers::default();
    // oracle per input: the reference model (independent of any state the real parser may hide)
    let mut expect: Vec<Option<(bool, String)>> = Vec::new();
    for input in &inputs {
        let r = reference(case, input, &answers, Options::pure());
        expect.push(if r.gave_up || case.note.contains("no-reference") {
            None
        } else {
            Some(match &r.result {
                Ok((_, v)) => (true, v.canon_top(true, false)),
                Err(()) => (false, String::new()),
            })
        });
    }
    // second oracle: the complete result (error offset and detail included) of the same input parsed
    // alone on a fresh OS thread
    let baseline: Vec<Real> = inputs
        .iter()
        .map(|inp| {
            let inp = inp.clone();
            let f = entry.run;
            std::thread::Builder::new()
                .stack_size(256 << 20)
                .spawn(move || {
                    crate::real::silence_panics();
                    user::reset(Answers::default());
                    f(&inp, Mode::Plain)
                })
                .unwrap()
                .join()
                .unwrap_or(Real::Panic("thread".into()))
        })
        .collect();
    // third oracle: the same input parsed in a fresh PROCESS (no history at all, not even in statics)
    for (i, inp) in inputs.iter().enumerate() {
        match fresh_process_result(case.id, inp) {
            Some(r) => {
                sink.bump("fresh_process_baselines", 1);
                if r != baseline[i] {
                    sink.violation(
                        case,
                        inp,
                        "result-depends-on-history",
                        format!("{} (parsed alone in a fresh process)", r.short()),
                        baseline[i].short(),
                        json!({"history": inputs[..i].to_vec(), "position_in_history": i, "mode": "fresh thread after the listed inputs were parsed in this process"}),
                    );
                    return;
                }
            }
            None => {
                sink.violation(case, inp, "fresh-process-parse-died", baseline[i].short(), "the process parsing this input alone gave no result".into(), json!({}));
                return;
            }
        }
    }
    // placements: the same text read from a buffer at every start address modulo 16 (k bytes of other text in front
    // of it in one allocation, the parser is given the tail slice)
    for (i, inp) in inputs.iter().enumerate() {
        for k in 0..16usize {
            let mut buf = String::with_capacity(k + inp.len() + 16);
            for _ in 0..k {
                buf.push('#');
            }
            buf.push_str(inp);
            buf.push_str("#tail");
            let text = &buf[k..k + inp.len()];
            user::reset(answers.clone());
            let r = (entry.run)(text, Mode::Plain);
            sink.evaluations += 1;
            sink.nontrivial += 1;
            sink.bump("placement_parses", 1);
            sink.bump(&format!("placement_address_mod_16_is_{}", text.as_ptr() as usize % 16), 1);
            if r != baseline[i] {
                sink.violation(
                    case,
                    inp,
                    "result-depends-on-placement",
                    format!("{} (parsed from a string of its own)", baseline[i].short()),
                    r.short(),
                    json!({"placement": format!("slice starting {k} bytes into an allocation, followed by other text; address modulo 16 = {}", text.as_ptr() as usize % 16)}),
                );
                return;
            }
        }
    }
    let agrees = |real: &Real, exp: &Option<(bool, String)>| -> bool {
        match (real, exp) {
            (_, None) => true,
            (Real::Ok(s), Some((true, c))) => view(s).map(|v| &v.pos == c).unwrap_or(false),
            (Real::Err { .. }, Some((false, _))) => true,
            _ => false,
        }
    };
    let n = inputs.len();
    let depth3 = n.min(if opts.tier == refpeg::corpus::Tier::Quick { 8 } else { 12 });
    let mut seqs: Vec<Vec<usize>> = Vec::new();
    let placement_only = case.note.contains("placement-only");
    for i in 0..n {
        seqs.push(vec![i]);
        for j in 0..(if placement_only { 0 } else { n }) {
            seqs.push(vec![i, j]);
        }
    }
    for i in 0..(if placement_only { 0 } else { depth3 }) {
        for j in 0..depth3 {
            for k in 0..depth3 {
                seqs.push(vec![i, j, k]);
            }
        }
    }
    // mode 0: every call gets its own string; mode 1: all calls of a history read their input from one
    // reused buffer (same address, different content - the usual line-buffer loop); mode 2: consecutive
    // calls on alternating fresh threads
    let run_seq = |seq: &[usize], mode: usize| -> Vec<Real> {
        match mode {
            0 => seq
                .iter()
                .map(|&ix| {
                    user::reset(answers.clone());
                    (entry.run)(&inputs[ix], Mode::Plain)
                })
                .collect(),
            1 => {
                let mut buf = String::with_capacity(256);
                seq.iter()
                    .map(|&ix| {
                        buf.clear();
                        buf.push_str(&inputs[ix]);
                        user::reset(answers.clone());
                        (entry.run)(&buf, Mode::Plain)
                    })
                    .collect()
            }
            _ => {
                let mut out = Vec::new();
                for &ix in seq {
                    let inp = inputs[ix].clone();
                    let f = entry.run;
                    let h = std::thread::Builder::new()
                        .stack_size(256 << 20)
                        .spawn(move || {
                            crate::real::silence_panics();
                            user::reset(Answers::default());
                            f(&inp, Mode::Plain)
                        })
                        .unwrap();
                    out.push(h.join().unwrap_or(Real::Panic("thread".into())));
                }
                out
            }
        }
    };
    for (si, seq) in seqs.iter().enumerate() {
        progress(opts, case.id, si);
        for mode in [0usize, 1, 2] {
            let threads = mode == 2;
            if threads && seq.len() != 2 {
                continue;
            }
            let res = run_seq(seq, mode);
            sink.evaluations += 1;
            if seq.len() > 1 {
                sink.nontrivial += 1;
            }
            sink.outcome(&format!("{}|{:?}", case.id, res.iter().map(|r| r.short()).collect::<Vec<_>>()));
            sink.sample(|| json!({"grammar": case.text, "history": seq.iter().map(|&i| inputs[i].clone()).collect::<Vec<_>>(), "results": res.iter().map(|r| r.short()).collect::<Vec<_>>() }));
            for (k, r) in res.iter().enumerate() {
                if !agrees(r, &expect[seq[k]]) || *r != baseline[seq[k]] {
                    sink.violation(
                        case,
                        &inputs[seq[k]],
                        "result-depends-on-history",
                        format!("{} (reference model: {:?})", baseline[seq[k]].short(), expect[seq[k]]),
                        r.short(),
                        json!({"history": seq.iter().map(|&i| inputs[i].clone()).collect::<Vec<_>>(), "position_in_history": k, "mode": (["own strings", "one reused buffer", "alternating threads"][mode])}),
                    );
                    break;
                }
            }
        }
    }
}
