//! User functions referenced by corpus grammars (`@check(hrt::user::...)`, `@extern(hrt::user::...)`),
//! with their answers looked up in a harness-owned table: the *environment answers* of the exploration.

use std::cell::RefCell;
use std::collections::BTreeMap;
use std::fmt::Debug;

#[derive(Clone, Debug, Default, PartialEq, Eq, PartialOrd, Ord)]
pub struct Answers {
    /// (function, canonical argument) -> answer; absent = true
    pub check: BTreeMap<(String, String), bool>,
    /// (function, remaining input) -> answer; absent = the function's default behaviour
    pub ext: BTreeMap<(String, String), ExtAnswer>,
}

#[derive(Clone, Debug, PartialEq, Eq, PartialOrd, Ord)]
pub enum ExtAnswer {
    Fail,
    /// consume this many *characters* of the remaining input; value = consumed text
    Take(usize),
}

#[derive(Default)]
pub struct Env {
    pub answers: Answers,
    /// (function, argument) in call order
    pub calls: Vec<(String, String)>,
    /// identity of the user context seen by context-taking functions
    pub ctx_ids: Vec<usize>,
}

thread_local! {
    pub static ENV: RefCell<Env> = RefCell::new(Env::default());
}

pub fn reset(answers: Answers) {
    ENV.with(|e| {
        let mut e = e.borrow_mut();
        e.answers = answers;
        e.calls.clear();
        e.ctx_ids.clear();
    })
}

pub fn take_calls() -> Vec<(String, String)> {
    ENV.with(|e| std::mem::take(&mut e.borrow_mut().calls))
}
pub fn take_ctx_ids() -> Vec<usize> {
    ENV.with(|e| std::mem::take(&mut e.borrow_mut().ctx_ids))
}

fn log(func: &str, arg: String) {
    ENV.with(|e| e.borrow_mut().calls.push((func.to_string(), arg)))
}

/// The default behaviour of an extern function when the table has no answer.
pub fn ext_default(func: &str, s: &str) -> ExtAnswer {
    match func {
        f if f.starts_with("hrt::user::probe") => ExtAnswer::Take(0),
        "hrt::user::tok" | "hrt::user::tok_ctx" | "hrt::user::tokt" => match s.chars().next() {
            Some(c) if c.is_ascii_lowercase() => ExtAnswer::Take(1),
            _ => ExtAnswer::Fail,
        },
        // one or two characters, multi-byte aware: correct byte lengths
        "hrt::user::tok2" => {
            let mut it = s.chars();
            match it.next() {
                Some(c) if c != ' ' => match it.next() {
                    Some('é') => ExtAnswer::Take(2),
                    _ => ExtAnswer::Take(1),
                },
                _ => ExtAnswer::Fail,
            }
        }
        // a whitespace skipper written as an extern function: underscores and NBSP
        "hrt::user::ws_ext" => ExtAnswer::Take(s.chars().take_while(|c| *c == '_' || *c == '\u{a0}').count()),
        _ => ExtAnswer::Fail,
    }
}

pub fn ext_error_string(func: &str) -> &'static str {
    match func {
        "hrt::user::tok" => "expected tok",
        "hrt::user::tok_ctx" => "expected tok_ctx",
        "hrt::user::tokt" => "expected tokt",
        "hrt::user::tok2" => "expected tok2",
        _ => "probe refused",
    }
}

/// resolve an answer against the remaining input: (consumed text, bytes) or error
pub fn ext_resolve(func: &str, s: &str, answers: &Answers) -> Result<(String, usize), &'static str> {
    let ans = answers.ext.get(&(func.to_string(), s.to_string())).cloned().unwrap_or_else(|| ext_default(func, s));
    match ans {
        ExtAnswer::Fail => Err(ext_error_string(func)),
        ExtAnswer::Take(n) => {
            let bytes: usize = s.chars().take(n).map(|c| c.len_utf8()).sum();
            if s.chars().count() < n {
                return Err(ext_error_string(func));
            }
            Ok((s[..bytes].to_string(), bytes))
        }
    }
}

fn ext_answer(func: &str, s: &str) -> Result<(String, usize), &'static str> {
    crate::real::maybe_nested_traced_parse();
    // under the schedule explorer a user function is a scheduling point: other parses may run "inside" it
    crate::real::do_yield();
    log(func, s.to_string());
    ENV.with(|e| ext_resolve(func, s, &e.borrow().answers))
}

/// The answer of a check function when the table has none: a pure function of the argument.
pub fn check_default(func: &str, arg: &str) -> bool {
    if func.ends_with("chk_nob") || func.ends_with("chkx_nob") {
        !arg.contains('b')
    } else if func.ends_with("chk_nob2") {
        // refuses values in which the string "bb" occurs (two adjacent b)
        !arg.contains("bb")
    } else if func.ends_with("chk_never") {
        false
    } else if func.ends_with("chkc_lower") {
        // the argument is the Debug form of a char
        let inner = arg.trim_matches('\'');
        let c = if let Some(h) = inner.strip_prefix("\\u{") { u32::from_str_radix(h.trim_end_matches('}'), 16).ok().and_then(char::from_u32) } else { inner.chars().next() };
        c.map(|c| c.is_lowercase()).unwrap_or(false)
    } else {
        true
    }
}

fn check_answer(func: &str, arg: String) -> bool {
    crate::real::maybe_nested_traced_parse();
    // under the schedule explorer a user function is a scheduling point
    crate::real::do_yield();
    log(func, arg.clone());
    ENV.with(|e| e.borrow().answers.check.get(&(func.to_string(), arg.clone())).copied().unwrap_or_else(|| check_default(func, &arg)))
}

fn canon_of<T: Debug>(v: &T) -> String {
    let s = format!("{:?}", v);
    refpeg::dbg::canon_debug_str(&s, true).unwrap_or_else(|e| format!("<unreadable {e}: {s}>"))
}

// ---- extern functions -------------------------------------------------------------------------

/// unit value type for probes
#[derive(Debug, Clone, PartialEq, Eq)]
pub struct U;

/// explicit result type for `-> hrt::user::Tok`
#[derive(Debug, Clone, PartialEq, Eq)]
pub struct Tok(pub String);
impl From<String> for Tok {
    fn from(s: String) -> Self {
        Tok(s)
    }
}

macro_rules! probe {
    ($name:ident) => {
        pub fn $name(s: &str) -> Result<(U, usize), &'static str> {
            ext_answer(concat!("hrt::user::", stringify!($name)), s).map(|(_, n)| (U, n))
        }
    };
}
/// probes of grammars compiled with a user context type
macro_rules! probex {
    ($name:ident) => {
        pub fn $name(s: &str, ctx: &mut Ctx) -> Result<(U, usize), &'static str> {
            ctx.touched += 1;
            ext_answer(concat!("hrt::user::", stringify!($name)), s).map(|(_, n)| (U, n))
        }
    };
}
probex!(probex0);
probex!(probex1);
probex!(probex2);
probex!(probex3);
probex!(probex4);
probex!(probex5);
probe!(probe0);
probe!(probe1);
probe!(probe2);
probe!(probe3);
probe!(probe4);
probe!(probe5);

pub fn ws_ext(s: &str) -> Result<(U, usize), &'static str> {
    ext_answer("hrt::user::ws_ext", s).map(|(_, n)| (U, n))
}

pub fn tok(s: &str) -> Result<(String, usize), &'static str> {
    ext_answer("hrt::user::tok", s)
}
pub fn tok2(s: &str) -> Result<(String, usize), &'static str> {
    ext_answer("hrt::user::tok2", s)
}
/// returns a String, the rule's declared type is Tok: exercises the documented `.into()`
pub fn tokt(s: &str) -> Result<(String, usize), &'static str> {
    ext_answer("hrt::user::tokt", s)
}

/// the user context type of `user_ctx` cases
#[derive(Debug)]
pub struct Ctx {
    pub touched: usize,
    /// state of the stateful functions: `tick_ctx` / `has_budget` say yes this many times per parse
    pub budget: usize,
}

pub const BUDGET: usize = 2;

impl Default for Ctx {
    fn default() -> Self {
        Ctx { touched: 0, budget: BUDGET }
    }
}

/// a stateful extern function: matches the empty string while the context's budget lasts
pub fn tick_ctx(s: &str, ctx: &mut Ctx) -> Result<(String, usize), &'static str> {
    ctx.touched += 1;
    log("hrt::user::tick_ctx", s.to_string());
    if ctx.budget > 0 {
        ctx.budget -= 1;
        Ok((String::new(), 0))
    } else {
        Err("no budget")
    }
}

/// a stateful check function: says yes while the context's budget lasts
pub fn has_budget<T: Debug>(v: &T, ctx: &mut Ctx) -> bool {
    ctx.touched += 1;
    log("hrt::user::has_budget", canon_of(v));
    if ctx.budget > 0 {
        ctx.budget -= 1;
        true
    } else {
        false
    }
}

pub fn tok_ctx(s: &str, ctx: &mut Ctx) -> Result<(String, usize), &'static str> {
    ctx.touched += 1;
    let id = ctx as *mut Ctx as usize;
    ENV.with(|e| e.borrow_mut().ctx_ids.push(id));
    ext_answer("hrt::user::tok_ctx", s)
}

// ---- check functions --------------------------------------------------------------------------

macro_rules! chk {
    ($name:ident, $cname:ident, $xname:ident) => {
        pub fn $name<T: Debug>(v: &T) -> bool {
            check_answer(concat!("hrt::user::", stringify!($name)), canon_of(v))
        }
        /// `@char` rule check
        pub fn $cname(c: char) -> bool {
            check_answer(concat!("hrt::user::", stringify!($cname)), format!("{:?}", c))
        }
        /// with user context
        pub fn $xname<T: Debug>(v: &T, ctx: &mut Ctx) -> bool {
            ctx.touched += 1;
            let id = ctx as *mut Ctx as usize;
            ENV.with(|e| e.borrow_mut().ctx_ids.push(id));
            check_answer(concat!("hrt::user::", stringify!($xname)), canon_of(v))
        }
    };
}
/// `@char` rule check with a fixed meaning: lowercase letters (a pure function of the character)
pub fn chkc_lower(c: char) -> bool {
    check_answer("hrt::user::chkc_lower", format!("{:?}", c))
}
chk!(chk0, chkc0, chkx0);
chk!(chk1, chkc1, chkx1);

/// refuses every value whose canonical form contains the letter b
pub fn chk_nob<T: Debug>(v: &T) -> bool {
    check_answer("hrt::user::chk_nob", canon_of(v))
}
/// chk_nob for grammars compiled with a user context type
pub fn chkx_nob<T: Debug>(v: &T, ctx: &mut Ctx) -> bool {
    ctx.touched += 1;
    check_answer("hrt::user::chkx_nob", canon_of(v))
}
/// refuses every value whose canonical form contains "bb"
pub fn chk_nob2<T: Debug>(v: &T) -> bool {
    check_answer("hrt::user::chk_nob2", canon_of(v))
}
/// refuses everything (used where a check must never be consulted)
pub fn chk_never<T: Debug>(v: &T) -> bool {
    check_answer("hrt::user::chk_never", canon_of(v))
}

/// Hooks implementation for the reference interpreter backed by the same answer table
pub struct RefHooks<'a> {
    pub answers: &'a Answers,
    /// the model's copy of `Ctx::budget`
    pub budget: usize,
}

impl<'a> refpeg::interp::Hooks for RefHooks<'a> {
    fn check(&mut self, func: &str, arg: &str) -> bool {
        if func == "hrt::user::has_budget" {
            let yes = self.budget > 0;
            self.budget = self.budget.saturating_sub(1);
            return yes;
        }
        self.answers.check.get(&(func.to_string(), arg.to_string())).copied().unwrap_or_else(|| check_default(func, arg))
    }
    fn char_check(&mut self, func: &str, c: char) -> bool {
        let arg = format!("{:?}", c);
        self.answers.check.get(&(func.to_string(), arg.clone())).copied().unwrap_or_else(|| check_default(func, &arg))
    }
    fn ext(&mut self, func: &str, rest: &str) -> Result<(String, usize), String> {
        if func == "hrt::user::tick_ctx" {
            if self.budget > 0 {
                self.budget -= 1;
                return Ok((String::new(), 0));
            }
            return Err("no budget".into());
        }
        ext_resolve(func, rest, self.answers).map_err(|e| e.to_string())
    }
}
