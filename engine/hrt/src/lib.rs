//! Harness runtime linked into every generated shard: drives the real generated parsers over the
//! enumerated input spaces and compares them with the reference model.

pub mod check;
pub mod real;
pub mod user;

pub use real::{run_parse, run_parse_ctx, Mode, Real};

use refpeg::corpus::{Case, Tier};
use serde_json::json;
use std::collections::BTreeMap;
use std::io::Write;
use std::sync::atomic::{AtomicU64, AtomicUsize, Ordering};

pub struct Entry {
    pub id: usize,
    pub hash: u64,
    pub run: fn(&str, Mode) -> Real,
}

pub static PROGRESS_CASE: AtomicUsize = AtomicUsize::new(usize::MAX);
pub static PROGRESS_INPUT: AtomicUsize = AtomicUsize::new(usize::MAX);
pub static PROGRESS_TICK: AtomicU64 = AtomicU64::new(0);

pub fn emit(v: serde_json::Value) {
    let out = std::io::stdout();
    let mut l = out.lock();
    let _ = writeln!(l, "{}", v);
    let _ = l.flush();
}

pub struct Opts {
    pub prop: String,
    pub tier: Tier,
    pub only: Option<usize>,
    pub skip: Vec<(usize, Option<usize>)>,
    pub verbose_progress: bool,
    pub max_viol: usize,
    pub hang_secs: u64,
}

fn parse_args() -> Opts {
    let args: Vec<String> = std::env::args().collect();
    let mut o = Opts {
        prop: String::new(),
        tier: Tier::Quick,
        only: None,
        skip: Vec::new(),
        verbose_progress: false,
        max_viol: 25,
        hang_secs: 20,
    };
    let mut i = 1;
    while i < args.len() {
        match args[i].as_str() {
            "--tier" => {
                o.tier = Tier::parse(&args[i + 1]);
                i += 1;
            }
            "--only" => {
                o.only = Some(args[i + 1].parse().unwrap());
                i += 1;
            }
            "--skip" => {
                // case or case:input
                let s = &args[i + 1];
                let mut it = s.split(':');
                let c = it.next().unwrap().parse().unwrap();
                let inp = it.next().map(|x| x.parse().unwrap());
                o.skip.push((c, inp));
                i += 1;
            }
            "--verbose-progress" => o.verbose_progress = true,
            "--max-viol" => {
                o.max_viol = args[i + 1].parse().unwrap();
                i += 1;
            }
            "--hang-secs" => {
                o.hang_secs = args[i + 1].parse().unwrap();
                i += 1;
            }
            other => panic!("unknown argument {other}"),
        }
        i += 1;
    }
    o
}

/// Entry point of a shard binary.
pub fn shard_main(prop: &str, registry: &[Entry]) {
    // `--one <case id>`: parse the input given on stdin once, in this fresh process, and print the result
    // (the history-free baseline of C20)
    {
        let args: Vec<String> = std::env::args().collect();
        if args.len() == 3 && args[1] == "--one" {
            let id: usize = args[2].parse().unwrap();
            let mut input = String::new();
            std::io::Read::read_to_string(&mut std::io::stdin(), &mut input).unwrap();
            let f = registry.iter().find(|e| e.id == id).expect("case id").run;
            real::silence_panics();
            let r = std::thread::Builder::new()
                .stack_size(256 << 20)
                .spawn(move || {
                    real::silence_panics();
                    user::reset(user::Answers::default());
                    f(&input, Mode::Plain)
                })
                .unwrap()
                .join()
                .unwrap_or(Real::Panic("thread".into()));
            emit(match r {
                Real::Ok(s) => json!({"k":"ok","s":s}),
                Real::Err { pos, spec } => json!({"k":"err","pos":pos,"spec":spec}),
                Real::Panic(m) => json!({"k":"panic","m":m}),
            });
            return;
        }
    }
    let mut opts = parse_args();
    opts.prop = prop.to_string();
    real::silence_panics();
    // watchdog: a parse that makes no progress for hang_secs is reported and the shard exits
    let hang = opts.hang_secs;
    std::thread::spawn(move || {
        let mut last = (usize::MAX, usize::MAX, 0u64);
        let mut since = std::time::Instant::now();
        loop {
            std::thread::sleep(std::time::Duration::from_millis(500));
            let cur = (
                PROGRESS_CASE.load(Ordering::Relaxed),
                PROGRESS_INPUT.load(Ordering::Relaxed),
                PROGRESS_TICK.load(Ordering::Relaxed),
            );
            if cur != last {
                last = cur;
                since = std::time::Instant::now();
            } else if since.elapsed().as_secs() >= hang && cur.0 != usize::MAX {
                emit(json!({"k":"hang","case":cur.0,"input":cur.1}));
                std::process::exit(3);
            }
        }
    });
    let corpus = refpeg::corpus::build(prop, opts.tier);
    let mut reg: BTreeMap<usize, &Entry> = BTreeMap::new();
    for e in registry {
        let c = corpus.get(e.id).unwrap_or_else(|| panic!("registry id {} outside corpus", e.id));
        let h = refpeg::enumerate::fnv(&c.text);
        if h != e.hash {
            emit(json!({"k":"machinery","msg":format!("corpus mismatch for case {}: generator and shard disagree on the grammar text", e.id)}));
            std::process::exit(2);
        }
        reg.insert(e.id, e);
    }
    // deep-nesting inputs need more than the default main-thread stack in a debug build
    std::thread::scope(|sc| {
        std::thread::Builder::new()
            .stack_size(1 << 30)
            .spawn_scoped(sc, || {
                real::silence_panics();
                let mut sink = check::Sink::new(&opts);
                check::run(&opts, &corpus, &reg, &mut sink);
                sink.finish();
            })
            .unwrap();
    });
    PROGRESS_CASE.store(usize::MAX, Ordering::Relaxed);
}

pub fn case_json(c: &Case) -> serde_json::Value {
    json!({"id": c.id, "group": c.group, "variant": c.variant, "family": c.family, "grammar": c.text, "root": c.root, "note": c.note})
}
