//! pgen: enumerate the corpus of a property, run the REAL peginator front end and code generator on
//! every grammar, and write a sharded harness workspace whose crates contain the generated parsers.
//!
//! usage: pgen <prop> <tier> <outdir> <nshards> <engine_dir> [--sched]

use peginator_codegen::{CodegenGrammar, CodegenSettings, Grammar};
use refpeg::corpus::{Case, Tier};
use serde_json::json;
use std::collections::BTreeMap;
use std::fmt::Write as _;
use std::panic::{catch_unwind, AssertUnwindSafe};
use std::path::Path;
use std::str::FromStr;

enum Gen {
    Code(String),
    Rejected(String),
    Panicked(String),
}

fn generate(case: &Case) -> Gen {
    let r = catch_unwind(AssertUnwindSafe(|| -> Result<String, String> {
        let g = Grammar::from_str(&case.text).map_err(|e| format!("front end: {e}"))?;
        let mut settings = CodegenSettings::default();
        if let Some(d) = &case.derives {
            settings.derives = d.clone();
        }
        if case.user_ctx {
            settings.set_user_context_type("hrt::user::Ctx");
        }
        let ts = g.generate_code(&settings).map_err(|e| format!("{e:#}"))?;
        Ok(ts.to_string())
    }));
    match r {
        Ok(Ok(s)) => Gen::Code(s),
        Ok(Err(e)) => Gen::Rejected(e),
        Err(p) => Gen::Panicked(
            p.downcast_ref::<String>().cloned().or_else(|| p.downcast_ref::<&str>().map(|s| s.to_string())).unwrap_or_else(|| "panic".into()),
        ),
    }
}

/// `pgen --worker <prop> <tier> <start> <end> <outfile>`: generate the cases start..end one after the other in this
/// process (one thread, corpus order) and append one JSON line per finished case. A case that kills the
/// process leaves no line; the parent attributes the death to it and restarts behind it.
fn worker(args: &[String]) {
    let prop = &args[0];
    let tier = Tier::parse(&args[1]);
    let start: usize = args[2].parse().unwrap();
    let end: usize = args[3].parse().unwrap();
    std::panic::set_hook(Box::new(|_| {}));
    let corpus = refpeg::corpus::build(prop, tier);
    let mut out = std::fs::OpenOptions::new().create(true).append(true).open(&args[4]).unwrap();
    use std::io::Write;
    for c in &corpus[start..end.min(corpus.len())] {
        let line = match generate(c) {
            Gen::Code(s) => json!({"id": c.id, "k": "code", "v": s}),
            Gen::Rejected(m) => json!({"id": c.id, "k": "rejected", "v": m}),
            Gen::Panicked(m) => json!({"id": c.id, "k": "panicked", "v": m}),
        };
        writeln!(out, "{}", line).unwrap();
        out.flush().unwrap();
    }
}

/// run the real generator over the whole corpus in crash-isolated worker processes
fn generate_all(prop: &str, tier: Tier, n: usize, outdir: &Path) -> Vec<Gen> {
    let exe = std::env::current_exe().unwrap();
    let nworkers = 16usize.min(n.max(1));
    let chunk = (n + nworkers - 1) / nworkers.max(1);
    let tmp = outdir.join("gen-tmp");
    let _ = std::fs::remove_dir_all(&tmp);
    std::fs::create_dir_all(&tmp).unwrap();
    let handles: Vec<std::thread::JoinHandle<Vec<(usize, Gen)>>> = (0..nworkers)
        .map(|w| {
            let (exe, tmp, prop) = (exe.clone(), tmp.clone(), prop.to_string());
            std::thread::spawn(move || {
                let (lo, hi) = (w * chunk, ((w + 1) * chunk).min(n));
                let mut results: Vec<(usize, Gen)> = Vec::new();
                let mut start = lo;
                let mut attempt = 0;
                while start < hi {
                    let file = tmp.join(format!("w{w}-{attempt}.jsonl"));
                    attempt += 1;
                    let mut child = std::process::Command::new(&exe)
                        .args(["--worker", &prop, tier.name(), &start.to_string(), &hi.to_string(), file.to_str().unwrap()])
                        .stdout(std::process::Stdio::null())
                        .stderr(std::process::Stdio::null())
                        .spawn()
                        .unwrap();
                    // watchdog: no new result for 120 s counts as a hang of the case being generated
                    let mut last_len = 0u64;
                    let mut since = std::time::Instant::now();
                    let mut hung = false;
                    let status = loop {
                        if let Some(st) = child.try_wait().unwrap() {
                            break Some(st);
                        }
                        std::thread::sleep(std::time::Duration::from_millis(50));
                        let len = std::fs::metadata(&file).map(|m| m.len()).unwrap_or(0);
                        if len != last_len {
                            last_len = len;
                            since = std::time::Instant::now();
                        } else if since.elapsed().as_secs() >= 120 {
                            let _ = child.kill();
                            let _ = child.wait();
                            hung = true;
                            break None;
                        }
                    };
                    let text = std::fs::read_to_string(&file).unwrap_or_default();
                    let mut done = 0usize;
                    for l in text.lines() {
                        let Ok(v) = serde_json::from_str::<serde_json::Value>(l) else { break };
                        let id = v["id"].as_u64().unwrap() as usize;
                        let body = v["v"].as_str().unwrap_or("").to_string();
                        results.push((id, match v["k"].as_str().unwrap() { "code" => Gen::Code(body), "rejected" => Gen::Rejected(body), _ => Gen::Panicked(body) }));
                        done += 1;
                    }
                    let _ = std::fs::remove_file(&file);
                    start += done;
                    if start < hi {
                        // the worker died (or hung) while generating case `start`
                        let how = if hung { "the generator made no progress for 120 s (killed)".to_string() } else { format!("the generator process died: {:?}", status) };
                        results.push((start, Gen::Panicked(how)));
                        start += 1;
                    }
                }
                results
            })
        })
        .collect();
    let mut gens: Vec<Option<Gen>> = (0..n).map(|_| None).collect();
    for h in handles {
        for (id, g) in h.join().unwrap() {
            gens[id] = Some(g);
        }
    }
    let _ = std::fs::remove_dir_all(&tmp);
    gens.into_iter().enumerate().map(|(i, g)| g.unwrap_or_else(|| panic!("no generator result for case {i}"))).collect()
}

fn main() {
    let args: Vec<String> = std::env::args().collect();
    if args.len() >= 7 && args[1] == "--worker" {
        worker(&args[2..]);
        return;
    }
    if args.len() < 6 {
        eprintln!("usage: pgen <prop> <tier> <outdir> <nshards> <engine_dir> [--sched]");
        std::process::exit(2);
    }
    let prop = &args[1];
    let tier = Tier::parse(&args[2]);
    let outdir = Path::new(&args[3]);
    let nshards: usize = args[4].parse().unwrap();
    let engine = &args[5];
    let sched = args.iter().any(|a| a == "--sched");
    std::panic::set_hook(Box::new(|_| {}));

    let corpus = refpeg::corpus::build(prop, tier);
    // 0 = choose: at most ~700 generated modules per crate (rustc memory), at least 16 crates
    let nshards = if nshards == 0 { ((corpus.len() + 699) / 700).max(16) } else { nshards };
    std::fs::create_dir_all(outdir).unwrap();
    let gens: Vec<Gen> = generate_all(prop, tier, corpus.len(), outdir);

    let mut rejected = Vec::new();
    let mut panicked = Vec::new();
    let mut accepted: Vec<&Case> = Vec::new();
    for (c, g) in corpus.iter().zip(&gens) {
        match g {
            Gen::Code(_) => accepted.push(c),
            Gen::Rejected(m) => rejected.push(json!({"id": c.id, "group": c.group, "variant": c.variant, "family": c.family, "grammar": c.text, "message": m})),
            Gen::Panicked(m) => panicked.push(json!({"id": c.id, "group": c.group, "variant": c.variant, "family": c.family, "grammar": c.text, "message": m})),
        }
    }

    // shard assignment by group, greedy on estimated cost
    let mut groups: BTreeMap<usize, Vec<&Case>> = BTreeMap::new();
    for c in &accepted {
        groups.entry(c.group).or_default().push(c);
    }
    let mut group_list: Vec<(usize, usize)> = groups
        .iter()
        .map(|(g, cs)| {
            let cost: usize = cs.iter().map(|c| match &gens[c.id] { Gen::Code(s) => s.len(), _ => 0 }).sum();
            (*g, cost)
        })
        .collect();
    group_list.sort_by_key(|(g, cost)| (std::cmp::Reverse(*cost), *g));
    let mut load = vec![0usize; nshards];
    let mut shard_of: BTreeMap<usize, usize> = BTreeMap::new();
    for (g, cost) in group_list {
        let (si, _) = load.iter().enumerate().min_by_key(|(i, l)| (**l, *i)).unwrap();
        load[si] += cost + 2000;
        shard_of.insert(g, si);
    }

    std::fs::create_dir_all(outdir).unwrap();
    let mut members = Vec::new();
    for si in 0..nshards {
        let cases: Vec<&&Case> = accepted.iter().filter(|c| shard_of[&c.group] == si).collect();
        if cases.is_empty() {
            continue;
        }
        let name = format!("s{:03}", si);
        members.push(name.clone());
        let sdir = outdir.join(&name);
        let src = sdir.join("src");
        let _ = std::fs::remove_dir_all(&src);
        std::fs::create_dir_all(&src).unwrap();
        let mut cargo = String::new();
        writeln!(cargo, "[package]\nname = \"{}_{}\"\nversion = \"0.0.0\"\nedition = \"2021\"\n", prop.to_lowercase(), name).unwrap();
        writeln!(cargo, "[[bin]]\nname = \"{}\"\npath = \"src/main.rs\"\n", name).unwrap();
        writeln!(cargo, "[dependencies]\npeginator = {{ path = \"/repo/runtime\" }}\nhrt = {{ path = \"{engine}/hrt\" }}\nrefpeg = {{ path = \"{engine}/refpeg\" }}").unwrap();
        if sched {
            writeln!(cargo, "sched = {{ path = \"{engine}/sched\" }}").unwrap();
        }
        std::fs::write(sdir.join("Cargo.toml"), cargo).unwrap();
        let mut main = String::new();
        writeln!(main, "#![forbid(unsafe_code)]\n#![allow(warnings)]").unwrap();
        for c in &cases {
            writeln!(main, "mod g{:05};", c.id).unwrap();
        }
        writeln!(main, "static REGISTRY: &[hrt::Entry] = &[").unwrap();
        for c in &cases {
            writeln!(main, "    hrt::Entry {{ id: {}, hash: {}u64, run: g{:05}::run }},", c.id, refpeg::enumerate::fnv(&c.text), c.id).unwrap();
        }
        writeln!(main, "];").unwrap();
        if sched {
            writeln!(main, "fn main() {{ sched::shard_main({:?}, REGISTRY); }}", prop).unwrap();
        } else {
            writeln!(main, "fn main() {{ hrt::shard_main({:?}, REGISTRY); }}", prop).unwrap();
        }
        std::fs::write(src.join("main.rs"), main).unwrap();
        for c in &cases {
            let Gen::Code(code) = &gens[c.id] else { unreachable!() };
            let mut m = String::new();
            writeln!(m, "// case {} group {} variant {} family {}", c.id, c.group, c.variant, c.family).unwrap();
            for l in c.text.lines() {
                writeln!(m, "// {}", l.replace('\r', "\\r")).unwrap();
            }
            writeln!(m, "{}", code).unwrap();
            let root = &c.root;
            if prop == "C13" && c.variant == 0 {
                // "the same public types": the exact-type assertions computed for the INLINED grammar must
                // compile against the code generated for the include variant (rustc is the judge)
                if let Some(inl) = corpus.iter().find(|o| o.group == c.group && o.variant == 1) {
                    let mut gi = inl.grammar.clone();
                    gi.rules.retain(|r| c.grammar.has(&r.name));
                    writeln!(m, "{}", refpeg::shape::assertions(&gi, &c.derives)).unwrap();
                }
            }
            if prop == "C12" {
                // what the markers of a field denote is visible in the generated types only: exact-type assertions
                writeln!(m, "{}", refpeg::shape::assertions(&c.grammar, &c.derives)).unwrap();
            }
            if prop == "C03" {
                // rustc is the judge: exact-type assertions computed from the documented mapping
                writeln!(m, "{}", refpeg::shape::assertions(&c.grammar, &c.derives)).unwrap();
                writeln!(m, "pub fn run(_input: &str, _mode: hrt::Mode) -> hrt::Real {{ hrt::Real::Panic(String::new()) }}").unwrap();
            } else if c.user_ctx {
                writeln!(m, "pub fn run(input: &str, mode: hrt::Mode) -> hrt::Real {{ hrt::run_parse_ctx::<{root}>(input, mode) }}").unwrap();
            } else {
                writeln!(m, "pub fn run(input: &str, mode: hrt::Mode) -> hrt::Real {{ hrt::run_parse::<{root}>(input, mode) }}").unwrap();
            }
            std::fs::write(src.join(format!("g{:05}.rs", c.id)), m).unwrap();
        }
    }
    let mut ws = String::new();
    writeln!(ws, "[workspace]\nresolver = \"2\"\nmembers = [{}]\n", members.iter().map(|m| format!("{:?}", m)).collect::<Vec<_>>().join(", ")).unwrap();
    writeln!(ws, "[profile.dev]\ndebug = false\nopt-level = 0\nincremental = false\n").unwrap();
    writeln!(ws, "[profile.dev.package.refpeg]\nopt-level = 2\n[profile.dev.package.hrt]\nopt-level = 2\n[profile.dev.package.serde_json]\nopt-level = 2\n[profile.dev.package.peginator]\nopt-level = 1").unwrap();
    std::fs::write(outdir.join("Cargo.toml"), ws).unwrap();

    let families: BTreeMap<String, usize> = corpus.iter().fold(BTreeMap::new(), |mut m, c| {
        *m.entry(c.family.clone()).or_insert(0) += 1;
        m
    });
    let summary = json!({
        "prop": prop, "tier": tier.name(), "corpus": corpus.len(), "accepted": accepted.len(),
        "rejected": rejected, "panicked": panicked, "shards": members, "families": families,
        "groups": groups.len(),
        "input_spaces": corpus.iter().map(|c| c.inputs.describe()).collect::<std::collections::BTreeSet<_>>().into_iter().collect::<Vec<_>>(),
    });
    std::fs::write(outdir.join("gen.json"), serde_json::to_string_pretty(&summary).unwrap()).unwrap();
    let texts: BTreeMap<String, (String, String)> = corpus.iter().map(|c| (c.id.to_string(), (c.text.clone(), c.family.clone()))).collect();
    std::fs::write(outdir.join("texts.json"), serde_json::to_string(&texts).unwrap()).unwrap();
    println!(
        "{}",
        json!({"corpus": corpus.len(), "accepted": accepted.len(), "rejected": summary["rejected"].as_array().unwrap().len(), "panicked": summary["panicked"].as_array().unwrap().len(), "shards": members.len()})
    );
}
