//! E6: every interleaving of concurrent parses at rule-boundary granularity.
//!
//! The tracer seam of the generated parsers (`parse_advanced::<TT>`) is instantiated with a tracer whose
//! callbacks call `shuttle::thread::yield_now()`, so every rule entry, rule exit and cache-hit notice is
//! a scheduling point. `shuttle::check_dfs` then enumerates every schedule of 2 (or 3) threads that each
//! parse one input; every complete schedule's results must equal the sequential reference.

use hrt::real::{take_trace, Mode, Real, YIELD_FN};
use hrt::user::{self, Answers};
use hrt::{check, emit, Entry};
use refpeg::corpus::{Case, Tier};
use refpeg::interp::Options;
use serde_json::json;
use std::collections::BTreeMap;
mod bounded;
use std::sync::atomic::{AtomicU64, Ordering};
use std::sync::{Arc, Mutex};

fn expectation(case: &Case, input: &str) -> Option<(bool, String)> {
    let r = check::reference(case, input, &Answers::default(), Options::pure());
    if r.gave_up {
        return None;
    }
    Some(match &r.result {
        Ok((_, v)) => (true, v.canon_top(true, false)),
        Err(()) => (false, String::new()),
    })
}

fn agrees(real: &Real, exp: &(bool, String, Real)) -> bool {
    // reference model (acceptance and tree) and the baseline run (complete result, error detail included)
    let model = match (real, exp) {
        (Real::Ok(s), (true, c, _)) => check::view(s).map(|v| &v.pos == c).unwrap_or(false),
        (Real::Err { .. }, (false, _, _)) => true,
        _ => false,
    };
    model && *real == exp.2
}

pub fn shard_main(prop: &str, registry: &[Entry]) {
    let args: Vec<String> = std::env::args().collect();
    let mut tier = Tier::Quick;
    let mut replay: Option<(usize, Vec<String>, String)> = None;
    let mut i = 1;
    while i < args.len() {
        match args[i].as_str() {
            "--tier" => {
                tier = Tier::parse(&args[i + 1]);
                i += 1;
            }
            "--replay" => {
                // --replay <case> <schedule> <input>...
                let case: usize = args[i + 1].parse().unwrap();
                let sched = args[i + 2].clone();
                replay = Some((case, args[i + 3..].to_vec(), sched));
                i = args.len();
            }
            _ => {}
        }
        i += 1;
    }
    hrt::real::silence_panics();
    let _ = YIELD_FN.set(shuttle::thread::yield_now);
    let corpus = refpeg::corpus::build(prop, tier);
    let reg: BTreeMap<usize, &Entry> = registry.iter().map(|e| (e.id, e)).collect();
    for e in registry {
        if refpeg::enumerate::fnv(&corpus[e.id].text) != e.hash {
            emit(json!({"k":"machinery","msg":"corpus mismatch"}));
            std::process::exit(2);
        }
    }
    if let Some((cid, inputs, sched)) = replay {
        let case = &corpus[cid];
        let f = reg[&cid].run;
        let exps: Vec<(bool, String, Real)> = inputs.iter().map(|i| { let e = expectation(case, i).unwrap(); let (f, i2) = (f, i.clone()); let b = std::thread::spawn(move || f(&i2, Mode::Plain)).join().unwrap(); (e.0, e.1, b) }).collect();
        let bad = Arc::new(Mutex::new(None));
        let bad2 = bad.clone();
        let inputs2 = inputs.clone();
        hrt::real::IN_SCHEDULER.store(true, Ordering::Relaxed);
        let traced_replay = sched.starts_with("T:");
        let sched = sched.trim_start_matches("T:").to_string();
        shuttle::replay(
            move || {
                // traced groups are marked by a schedule string that starts with "T:"
                let res = run_threads(f, &inputs2, traced_replay);
                for (k, r) in res.iter().enumerate() {
                    if !agrees(r, &exps[k]) {
                        *bad2.lock().unwrap() = Some((k, r.short()));
                    }
                }
            },
            &sched,
        );
        println!("replayed schedule {sched}: {:?}", bad.lock().unwrap());
        return;
    }
    let mut schedules_total = 0u64;
    let mut evaluations = 0u64;
    let mut violations = 0u64;
    let mut groups = 0u64;
    let mut samples = Vec::new();
    let mut distinct = std::collections::BTreeSet::new();
    let max_events_2 = if tier == Tier::Quick { 6usize } else { 7usize };
    let mut transitions = 0u64;
    let max_events_3 = 4usize;
    let (mut bounded_groups, mut bounded_schedules, mut capped_groups, mut bounded_samples) = (0u64, 0u64, 0u64, 0usize);
    for (cid, entry) in &reg {
        let case = &corpus[*cid];
        if case.family == "pure/memo-rare-hit" || case.family == "pure/memo-long" || case.family == "pure/whitespace-runs" {
            // long-history family of the sequential part
            continue;
        }
        emit(json!({"k":"at","case":cid}));
        let inputs = case.inputs.materialize();
        // events per input (sequential, recording tracer)
        let mut ev: Vec<(String, usize, (bool, String, Real))> = Vec::new();
        for inp in &inputs {
            let Some(exp) = expectation(case, inp) else { continue };
            // baseline: complete result of this input parsed alone on a fresh OS thread
            let (f, inp2) = (entry.run, inp.clone());
            let base = std::thread::Builder::new()
                .stack_size(256 << 20)
                .spawn(move || {
                    hrt::real::silence_panics();
                    let r = f(&inp2, Mode::Recorded);
                    // scheduling points of this parse: tracer callbacks plus calls of user (extern and check) functions
                    let ext_calls = hrt::user::take_calls().len();
                    (r, take_trace().len() + ext_calls)
                })
                .unwrap()
                .join()
                .unwrap();
            ev.push((inp.clone(), base.1, (exp.0, exp.1, base.0)));
        }
        // pairs chosen to collide: same first character (same rules at the same offsets), different continuation
        let pair_budget = if tier == Tier::Quick { 6 } else { 10 };
        let mut pairs: Vec<Vec<usize>> = Vec::new();
        'outer: for a in 0..ev.len() {
            for b in (a + 1)..ev.len() {
                let (ia, na, _) = &ev[a];
                let (ib, nb, _) = &ev[b];
                if *na >= 3 && *nb >= 3 && *na <= max_events_2 && *nb <= max_events_2 && !ia.is_empty() && ia.chars().next() == ib.chars().next() {
                    pairs.push(vec![a, b]);
                    if pairs.len() >= pair_budget {
                        break 'outer;
                    }
                }
            }
        }
        // and the same input twice
        if let Some(a) = (0..ev.len()).find(|a| ev[*a].1 >= 4 && ev[*a].1 <= max_events_2) {
            pairs.push(vec![a, a]);
        }
        if tier == Tier::Thorough {
            let small: Vec<usize> = (0..ev.len()).filter(|a| ev[*a].1 >= 2 && ev[*a].1 <= max_events_3).take(4).collect();
            if small.len() >= 3 {
                pairs.push(vec![small[0], small[1], small[2]]);
                pairs.push(vec![small[0], small[0], small[1]]);
            }
        }
        // longer parses (left-recursive growth, several cache hits): every schedule with at most `bound` preemptions
        let bound = if tier == Tier::Quick { 2usize } else { 3usize };
        let (lo, hi) = (max_events_2 + 1, if tier == Tier::Quick { 40usize } else { 64usize });
        let bounded_budget = if tier == Tier::Quick { 3 } else { 6 };
        let mut plan: Vec<(Vec<usize>, Option<usize>)> = pairs.into_iter().map(|p| (p, None)).collect();
        let long: Vec<usize> = (0..ev.len()).filter(|a| ev[*a].1 >= lo && ev[*a].1 <= hi).collect();
        let mut nb = 0;
        // the longest one against itself, then colliding pairs, longest first
        let mut by_len = long.clone();
        by_len.sort_by_key(|a| std::cmp::Reverse(ev[*a].1));
        if let Some(a) = by_len.first() {
            plan.push((vec![*a, *a], Some(bound)));
            nb += 1;
        }
        'b: for a in &by_len {
            for b in &by_len {
                if a != b && ev[*a].0.chars().next() == ev[*b].0.chars().next() && nb < bounded_budget {
                    plan.push((vec![*a, *b], Some(bound)));
                    nb += 1;
                    if nb >= bounded_budget {
                        break 'b;
                    }
                }
            }
        }
        // a long parse next to a short one of the same grammar (enters and leaves the same rules quickly)
        if let (Some(a), Some(b)) = (by_len.first(), (0..ev.len()).find(|b| ev[*b].1 >= 3 && ev[*b].1 < lo)) {
            plan.push((vec![*a, b], Some(bound)));
        }
        // a parse through `parse_with_trace` (parked inside its user functions) next to plain parses of the same grammar
        let mut traced_plan: Vec<(Vec<usize>, Option<usize>)> = Vec::new();
        if case.family == "pure/traced-neighbour" {
            for a in 0..ev.len() {
                for b in 0..ev.len() {
                    if ev[a].1 <= 24 && ev[b].1 <= 24 {
                        traced_plan.push((vec![a, b], Some(bound.max(3))));
                    }
                }
            }
        }
        let n_plain = plan.len();
        plan.extend(traced_plan);
        for (pi, (p, pbound)) in plan.into_iter().enumerate() {
            let traced_first = pi >= n_plain;
            groups += 1;
            let ins: Vec<String> = p.iter().map(|i| ev[*i].0.clone()).collect();
            let exps: Vec<(bool, String, Real)> = p.iter().map(|i| ev[*i].2.clone()).collect();
            let f = entry.run;
            let count = Arc::new(AtomicU64::new(0));
            let bad: Arc<Mutex<Option<(usize, String)>>> = Arc::new(Mutex::new(None));
            let outcomes: Arc<Mutex<std::collections::BTreeSet<String>>> = Arc::new(Mutex::new(Default::default()));
            let (c2, b2, o2, ins2, exps2) = (count.clone(), bad.clone(), outcomes.clone(), ins.clone(), exps.clone());
            let capped = Arc::new(std::sync::atomic::AtomicBool::new(false));
            let capped2 = capped.clone();
            let sdir = std::env::temp_dir().join(format!("verif-c20-{}-{}", std::process::id(), groups));
            let _ = std::fs::remove_dir_all(&sdir);
            std::fs::create_dir_all(&sdir).unwrap();
            let mut config = shuttle::Config::new();
            config.failure_persistence = shuttle::FailurePersistence::File(Some(sdir.clone()));
            config.silence_warnings = true;
            hrt::real::IN_SCHEDULER.store(true, Ordering::Relaxed);
            let res = std::panic::catch_unwind(std::panic::AssertUnwindSafe(|| {
                let scheduler: Box<dyn shuttle::scheduler::Scheduler + Send> = match pbound {
                    None => Box::new(shuttle::scheduler::DfsScheduler::new(None, false)),
                    Some(b) => Box::new(bounded::BoundedDfs::new(b, 3_000_000, capped2.clone())),
                };
                let runner = shuttle::Runner::new(scheduler, config);
                runner.run(move || {
                    let res = run_threads(f, &ins2, traced_first);
                    c2.fetch_add(1, Ordering::Relaxed);
                    o2.lock().unwrap().insert(format!("{:?}", res.iter().map(|r| r.short()).collect::<Vec<_>>()));
                    for (k, r) in res.iter().enumerate() {
                        if !agrees(r, &exps2[k]) {
                            *b2.lock().unwrap() = Some((k, r.short()));
                            panic!("result differs from the sequential reference");
                        }
                    }
                });
            }));
            hrt::real::IN_SCHEDULER.store(false, Ordering::Relaxed);
            let schedule_file = std::fs::read_dir(&sdir).ok().and_then(|mut d| d.next()).and_then(|e| e.ok()).map(|e| e.path());
            let schedule_text = schedule_file.as_ref().and_then(|p| std::fs::read_to_string(p).ok()).unwrap_or_default();
            let _ = std::fs::remove_dir_all(&sdir);
            let n = count.load(Ordering::Relaxed);
            schedules_total += n;
            transitions += n * p.iter().map(|i| ev[*i].1 as u64).sum::<u64>();
            evaluations += n;
            for o in outcomes.lock().unwrap().iter() {
                distinct.insert(format!("{cid}|{o}"));
            }
            if pbound.is_some() {
                bounded_groups += 1;
                bounded_schedules += n;
                if capped.load(Ordering::Relaxed) {
                    capped_groups += 1;
                }
            }
            if samples.len() < 6 || (pbound.is_some() && bounded_samples < 3) {
                if pbound.is_some() {
                    bounded_samples += 1;
                }
                samples.push(json!({"grammar": case.text, "threads": ins, "events_per_thread": p.iter().map(|i| ev[*i].1).collect::<Vec<_>>(), "schedules": n,
                    "exploration": match pbound { None => "all interleavings".to_string(), Some(b) => format!("all interleavings with at most {b} preemptions") }}));
            }
            if let Err(pn) = res {
                violations += 1;
                let msg = pn.downcast_ref::<String>().cloned().unwrap_or_else(|| pn.downcast_ref::<&str>().map(|s| s.to_string()).unwrap_or_default());
                // shuttle prints the failing schedule into the panic message
                let sched = format!("{}{}", if traced_first { "T:" } else { "" }, schedule_text.trim());
                let b = bad.lock().unwrap().clone();
                emit(json!({"k":"viol","prop":"C20","kind":"result-depends-on-interleaving","case": hrt::case_json(case), "input": ins,
                    "expected": format!("{:?}", exps), "actual": format!("{:?}", b), "extra": {"schedule": sched, "message": msg.chars().take(600).collect::<String>()}}));
            }
        }
    }
    emit(json!({"k":"stats","schedules": schedules_total, "transitions": transitions, "evaluations": evaluations, "violations": violations, "groups": groups,
        "distinct_outcomes": distinct.len(), "samples": samples,
        "preemption_bounded_groups": bounded_groups, "preemption_bounded_schedules": bounded_schedules, "preemption_bounded_groups_capped": capped_groups}));
}

/// `traced_first`: the first thread uses the public `parse_with_trace` (its scheduling points are the user functions it
/// calls), the others the yielding tracer
fn run_threads(f: fn(&str, Mode) -> Real, inputs: &[String], traced_first: bool) -> Vec<Real> {
    let hs: Vec<_> = inputs
        .iter()
        .enumerate()
        .map(|(i, inp)| {
            let inp = inp.clone();
            let mode = if traced_first && i == 0 { Mode::Indented } else { Mode::Yielding };
            shuttle::thread::spawn(move || f(&inp, mode))
        })
        .collect();
    hs.into_iter().map(|h| h.join().unwrap()).collect()
}
