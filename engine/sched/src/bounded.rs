//! Depth-first enumeration of all schedules with at most `bound` preemptions (a switch away from a task
//! that could have continued). Executions still run to completion; with an unlimited bound this is plain DFS.
//! Switches at points where the running task is blocked or finished are free.

use shuttle::scheduler::{Schedule, Scheduler, Task, TaskId};

#[derive(Debug)]
struct Level {
    /// options in canonical order: the running task first if it can continue, then ascending ids
    options: Vec<TaskId>,
    idx: usize,
    /// choosing anything but options[0] here costs one preemption
    first_is_current: bool,
}

#[derive(Debug)]
pub struct BoundedDfs {
    bound: usize,
    levels: Vec<Level>,
    steps: usize,
    preemptions: usize,
    iterations: u64,
    /// hard cap on executions (reported, never silently hit)
    max_iterations: u64,
    pub capped: std::sync::Arc<std::sync::atomic::AtomicBool>,
}

impl BoundedDfs {
    pub fn new(bound: usize, max_iterations: u64, capped: std::sync::Arc<std::sync::atomic::AtomicBool>) -> Self {
        BoundedDfs { bound, levels: Vec::new(), steps: 0, preemptions: 0, iterations: 0, max_iterations, capped }
    }
}

impl Scheduler for BoundedDfs {
    fn new_execution(&mut self) -> Option<Schedule> {
        if self.iterations > 0 {
            // backtrack to the deepest level with an unexplored option
            while let Some(l) = self.levels.last() {
                if l.idx + 1 < l.options.len() {
                    break;
                }
                self.levels.pop();
            }
            match self.levels.last_mut() {
                None => return None,
                Some(l) => l.idx += 1,
            }
        }
        if self.iterations >= self.max_iterations {
            self.capped.store(true, std::sync::atomic::Ordering::Relaxed);
            return None;
        }
        self.iterations += 1;
        self.steps = 0;
        self.preemptions = 0;
        Some(Schedule::new(0))
    }

    fn next_task(&mut self, runnable: &[&Task], current: Option<TaskId>, _is_yielding: bool) -> Option<TaskId> {
        let ids: Vec<TaskId> = runnable.iter().map(|t| t.id()).collect();
        if self.steps == self.levels.len() {
            let cur_runnable = current.map(|c| ids.contains(&c)).unwrap_or(false);
            let mut options: Vec<TaskId> = Vec::new();
            if cur_runnable {
                options.push(current.unwrap());
                if self.preemptions < self.bound {
                    options.extend(ids.iter().copied().filter(|t| Some(*t) != current));
                }
            } else {
                options.extend(ids.iter().copied());
            }
            self.levels.push(Level { options, idx: 0, first_is_current: cur_runnable });
        }
        let l = &self.levels[self.steps];
        let choice = l.options[l.idx];
        assert!(ids.contains(&choice), "schedule replay diverged: task {:?} is not runnable at step {} (uncontrolled nondeterminism in the harness)", choice, self.steps);
        if l.first_is_current && l.idx > 0 {
            self.preemptions += 1;
        }
        self.steps += 1;
        Some(choice)
    }

    fn next_u64(&mut self) -> u64 {
        panic!("the harness owns every source of randomness; none is expected");
    }
}
